"""C17: all element access paths of a vector or quaternion see the same N lanes (bits); one-step write lemma."""
import re, os
from kb import Harness, CFGS as KCFGS
from types_ import VEC, LET, SCALARS, draw_vec, draw_scalar, repo_read

CFGS = {"quick": ["sse2", "scalar"], "thorough": ["sse2", "scalar"]}
QUICK = ["Vec2", "Vec3", "Vec3A", "Vec4", "DVec2", "DVec3", "DVec4", "IVec2", "IVec3", "IVec4", "U8Vec3", "I16Vec4", "U64Vec2", "USizeVec3", "Quat", "DQuat"]
BOUNDS = ("all lane bit patterns incl. NaN payloads; Vec3A with an arbitrary hidden lane; the write lemma starts from an ARBITRARY value and performs one write at a symbolic "
          "lane index through each mutable path, then reads through every read path - sequences of writes of any length follow by induction (the pre-state is arbitrary); "
          "Debug/Display are not executed (core::fmt is out of reach of the bounded model checker); quick tier: 16 representative types, thorough: all 42")
ASSUMPTIONS = ["induction over write histories: each step is decided from an arbitrary pre-state, the composition argument is not mechanised"]


class QT:
    """quaternion pseudo vector type"""
    def __init__(self, name, scalar):
        self.name, self.scalar, self.dim, self.simd, self.hidden, self.float = name, scalar, 4, name == "Quat", False, True
        self.lname = name.lower()


def type_file(t, cfg):
    sse = KCFGS[cfg]["sse"]
    be = "sse2" if sse else "scalar"
    if t.name in ("Vec3A", "Vec4", "Quat"):
        return f"src/f32/{be}/{t.lname}.rs"
    if t.name == "DQuat":
        return "src/f64/dquat.rs"
    return f"src/{t.scalar}/{t.lname}.rs"


def harnesses(tier, cfg):
    hs = []
    types = list(VEC.values()) + [QT("Quat", "f32"), QT("DQuat", "f64")]
    for t in types:
        if tier == "quick" and t.name not in QUICK:
            continue
        hs += for_type(t, cfg)
    return hs


def draw(t, var):
    if t.name in ("Quat", "DQuat"):
        lanes = [f"{var}{i}" for i in range(4)]
        return " ".join(draw_scalar(t.scalar, l) for l in lanes) + f" let {var} = {t.name}::from_xyzw({', '.join(lanes)});", lanes
    return draw_vec(t, var)


def for_type(t, cfg):
    T, sc, N = t.name, t.scalar, t.dim
    src = repo_read(type_file(t, cfg))
    has = lambda pat: re.search(pat, src, re.M) is not None
    tup = "(" + ", ".join([sc] * N) + ")"
    H_index = has(rf"^impl Index<usize> for {T} ")
    H_indexmut = has(rf"^impl IndexMut<usize> for {T} ")
    H_asref = has(rf"^impl AsRef<\[{sc}; {N}\]> for {T} ")
    H_asmut = has(rf"^impl AsMut<\[{sc}; {N}\]> for {T} ")
    H_into_arr = has(rf"^impl From<{T}> for \[{sc}; {N}\]")
    H_into_tup = has(rf"^impl From<{T}> for \(")
    H_from_arr = has(rf"^impl From<\[{sc}; {N}\]> for {T} ")
    H_from_tup = has(rf"^impl From<\({sc}") and T not in ("Quat", "DQuat")
    H_with = has(r"pub fn with_x\(")
    isq = T in ("Quat", "DQuat")
    zero = "0.0" if t.float else "0"
    hs = []

    def readers(v, exp, tag):
        """every read path of value `v` must show lanes exp[0..N] (bits)"""
        L = []
        L += [f'va!("{tag} .{LET[i]}", {v}.{LET[i]}.bits({exp[i]}));' for i in range(N)]
        if H_index:
            L += [f'va!("{tag} [{i}]", {v}[{i}].bits({exp[i]}));' for i in range(N)]
        L.append(f"{{ let arr = {v}.to_array();")
        L += [f'va!("{tag} to_array[{i}]", arr[{i}].bits({exp[i]}));' for i in range(N)] + ["}"]
        L.append(f"{{ let mut sl = [{zero}; {N + 1}]; {v}.write_to_slice(&mut sl);")
        L += [f'va!("{tag} write_to_slice[{i}]", sl[{i}].bits({exp[i]}));' for i in range(N)] + [f'va!("{tag} write_to_slice leaves [N]", sl[{N}].bits({zero}));', "}"]
        if H_into_arr:
            L.append(f"{{ let arr: [{sc}; {N}] = {v}.into();")
            L += [f'va!("{tag} Into<array>[{i}]", arr[{i}].bits({exp[i]}));' for i in range(N)] + ["}"]
        if H_into_tup:
            L.append(f"{{ let tp: {tup} = {v}.into();")
            L += [f'va!("{tag} Into<tuple>.{i}", tp.{i}.bits({exp[i]}));' for i in range(N)] + ["}"]
        if H_asref:
            L.append(f"{{ let rf: &[{sc}; {N}] = {v}.as_ref();")
            L += [f'va!("{tag} AsRef[{i}]", rf[{i}].bits({exp[i]}));' for i in range(N)] + ["}"]
        return L

    def H(name, lines, desc):
        hs.append(Harness(f"c17_{t.lname}_{name}", "\n".join(lines), backend="sat", desc=desc, site=f"{T}::{name}", funcs=[f"{T}::{name}"]))

    # (a) constructors x readers
    code, a = draw(t, "a")
    H("new", [code] + readers("a", a, f"{T}::new"), f"{T}::{'from_xyzw' if isq else 'new'} (Vec3A via from_vec4 with arbitrary hidden lane) x every read path: same lanes, bit for bit")
    al = ", ".join(a)
    scal = " ".join(draw_scalar(sc, x) for x in a)
    ctor = []
    if not isq:
        ctor.append(("splat", f"let k = s.{sc}(); let v = {T}::splat(k);", ["k"] * N))
        ctor.append(("free_fn", f"{scal} let v = {t.lname}({al});", a))
        ctor.append(("new_plain", f"{scal} let v = {T}::new({al});", a))
    else:
        ctor.append(("free_fn", f"{scal} let v = {t.lname}({al});", a))
        ctor.append(("from_vec4", f"{scal} let v = {T}::from_vec4({'Vec4' if sc == 'f32' else 'DVec4'}::new({al}));", a))
    ctor.append(("from_array", f"{scal} let v = {T}::from_array([{al}]);", a))
    ctor.append(("from_slice", f"{scal} let sl = [{al}, {a[0]}]; let v = {T}::from_slice(&sl);", a))
    if H_from_arr:
        ctor.append(("from_arr_trait", f"{scal} let v: {T} = [{al}].into();", a))
    if H_from_tup:
        ctor.append(("from_tuple", f"{scal} let v: {T} = ({al}).into();", a))
    for nm, c, exp in ctor:
        H(nm, [c] + readers("v", exp, f"{T}::{nm}"), f"{T} constructor {nm} x every read path")
    # named constants
    consts = []
    if not isq:
        one, neg = ("1.0", "-1.0") if t.float else ("1", "-1")
        consts.append(("ZERO", [zero] * N))
        consts.append(("ONE", [one] * N))
        for k in range(N):
            consts.append((LET[k].upper(), [one if j == k else zero for j in range(N)]))
        if has(r"pub const NEG_ONE"):
            consts.append(("NEG_ONE", [neg] * N))
            for k in range(N):
                consts.append((f"NEG_{LET[k].upper()}", [neg if j == k else zero for j in range(N)]))
        if has(r"pub const MIN:"):
            consts.append(("MIN", [f"{sc}::MIN"] * N))
            consts.append(("MAX", [f"{sc}::MAX"] * N))
        if has(r"pub const INFINITY"):
            consts.append(("INFINITY", [f"{sc}::INFINITY"] * N))
            consts.append(("NEG_INFINITY", [f"{sc}::NEG_INFINITY"] * N))
    else:
        consts.append(("IDENTITY", ["0.0", "0.0", "0.0", "1.0"]))
    lines = []
    for cn, exp in consts:
        if not has(rf"pub const {cn}:"):
            continue
        lines.append(f"{{ let c = {T}::{cn};")
        lines += [f'va!("{T}::{cn}.{LET[i]}", c.{LET[i]}.bits({exp[i]}));' for i in range(N)]
        lines += [f'va!("{T}::{cn} to_array", c.to_array()[{i}].bits({exp[i]}));' for i in range(N)]
        lines.append("}")
    if not isq and has(r"pub const AXES"):
        lines.append(f"let ax = {T}::AXES;")
        one = "1.0" if t.float else "1"
        for k in range(N):
            lines += [f'va!("{T}::AXES[{k}][{j}]", ax[{k}].{LET[j]}.bits({one if j == k else zero}));' for j in range(N)]
    H("consts", lines, f"{T}: named constants have the documented lane values through field access and to_array")
    # (b) one-step write lemma from an arbitrary pre-state
    code, a = draw(t, "a")
    base = [code, f"let tv = s.{sc}(); let k = s.usize(); vassume!(k < {N});"]
    exp = [f"(if k == {i} {{ tv }} else {{ {a[i]} }})" for i in range(N)]
    wr = []
    fld = " ".join(f"if k == {i} {{ v.{LET[i]} = tv; }}" for i in range(N))
    wr.append(("write_field", f"let mut v = a; {fld}"))
    if H_indexmut:
        wr.append(("write_indexmut", "let mut v = a; v[k] = tv;"))
    if H_asmut:
        wr.append(("write_asmut", f"let mut v = a; {{ let m: &mut [{sc}; {N}] = v.as_mut(); m[k] = tv; }}"))
    if H_with:
        w = " else ".join(f"if k == {i} {{ a.with_{LET[i]}(tv) }}" for i in range(N)) + " else { a }"
        wr.append(("write_with", f"let v = {w};"))
    for nm, c in wr:
        H(nm, base + [c] + readers("v", exp, f"{T} {nm}"),
          f"{T}: one write through {nm} at a symbolic lane k of an arbitrary value changes exactly lane k as seen through every read path (inductive step for any write history)")
    return hs
