"""E2 encoders: terms -> z3 reals (mode R), terms -> uninterpreted IEEE operations (mode U), terms -> numpy (translator validation)."""
import ctypes, math, os, random, struct, sys, time
from fractions import Fraction
import numpy as np
import z3
import ir


class Z3H:
    """helper handed to reference functions: symbols for sqrt / reciprocal / sin / cos shared with the kernel encoding"""
    def __init__(self):
        self.S = z3.Function("S", z3.RealSort(), z3.RealSort())
        self.Cf = z3.Function("C", z3.RealSort(), z3.RealSort())
        self.ufs = {}
        self.side = []          # defining constraints of auxiliary symbols (sqrt, trig identities)
        self._trig0 = False
        self.domain = []        # domain side conditions (radicand >= 0, denominator != 0): assumed, and reported
        self._sqrt, self._trig, self._div, self.n = {}, {}, {}, 0

    def real(self, v):
        return z3.RealVal(str(v)) if isinstance(v, Fraction) else z3.RealVal(v)

    def sqrt(self, e):
        # sum-of-monomials normal form: radicands that are the same polynomial (e.g. up to where LLVM placed an fneg) share one sqrt symbol
        e = z3.simplify(e, som=True, sort_sums=True) if z3.is_expr(e) else self.real(e)
        k = e.hash()
        for (ee, r) in self._sqrt.get(k, []):
            if ee.eq(e):
                return r
        self.n += 1
        r = z3.Real(f"sqrt{self.n}")
        self._sqrt.setdefault(k, []).append((e, r))
        self.side += [r * r == e, r >= 0]
        self.domain.append(e >= 0)
        return r

    def trig(self, e):
        e = z3.simplify(e, som=True, sort_sums=True) if z3.is_expr(e) else self.real(e)
        # sin is odd, cos is even: canonicalise the sign of the argument (the compiled code computes sin(-t) where the reference says -sin(t))
        lead = e
        while z3.is_add(lead):
            lead = lead.arg(0)
        neg = (z3.is_mul(lead) and z3.is_rational_value(lead.arg(0)) and lead.arg(0).as_fraction() < 0) or (z3.is_rational_value(lead) and lead.as_fraction() < 0)
        if neg:
            s, c = self.trig(-e)
            return -s, c
        k = e.hash()
        for (ee, sc) in self._trig.get(k, []):
            if ee.eq(e):
                return sc
        if not self._trig0:
            # sin 0 = 0, cos 0 = 1 (added only when trigonometric symbols occur at all: a query without uninterpreted functions stays pure QF_NRA for nlsat)
            self._trig0 = True
            self.side += [self.S(z3.RealVal(0)) == 0, self.Cf(z3.RealVal(0)) == 1]
        s, c = self.S(e), self.Cf(e)
        self._trig.setdefault(k, []).append((e, (s, c)))
        self.side.append(s * s + c * c == 1)
        return s, c

    def sin(self, e):
        return self.trig(e)[0]

    def cos(self, e):
        return self.trig(e)[1]

    def uf(self, name, *args):
        f = self.ufs.get((name, len(args)))
        if f is None:
            f = z3.Function(name, *([z3.RealSort()] * (len(args) + 1)))
            self.ufs[(name, len(args))] = f
        return f(*args)

    def ite(self, c, a, b):
        return z3.If(c, a, b)

    def abs(self, a):
        return z3.If(a >= 0, a, -a)

    def div(self, a, b):
        self.domain.append(b != 0)
        return a / b

    def eq(self, a, b):
        return a == b

    def atan2(self, y, x):
        """t = atan2(y, x) as an uninterpreted symbol with its defining facts: with r = sqrt(x^2 + y^2) > 0, sin t = y / r and cos t = x / r;
        y >= 0 => t >= 0 (analytic axioms, listed in the evidence)"""
        t = self.uf("atan2", y, x)
        r = self.sqrt(x * x + y * y)
        s, c = self.trig(t)
        self.side += [z3.Implies(r > 0, z3.And(s * r == y, c * r == x)), z3.Implies(y >= 0, t >= 0), z3.Implies(y <= 0, t <= 0)]
        return t


class NumH:
    """numeric twin of Z3H (Python floats): used to evaluate a reference at a concrete counterexample"""
    def real(self, v):
        return float(v)

    def sqrt(self, e):
        return math.sqrt(e) if e >= 0 else float("nan")

    def sin(self, e):
        return math.sin(e)

    def cos(self, e):
        return math.cos(e)

    def uf(self, name, *args):
        return {"tan": math.tan, "atan2": math.atan2, "acos": lambda x: math.acos(max(-1, min(1, x))), "asin": math.asin, "exp": math.exp, "pow": math.pow,
                "frem": math.fmod}[name](*args)

    def ite(self, c, a, b):
        return a if c else b

    def abs(self, a):
        return abs(a)

    def div(self, a, b):
        return a / b if b != 0 else float("nan")


class REnc:
    """terms -> z3 Real expressions (each IEEE operation read as the exact real operation)"""
    def __init__(self, h, xs):
        self.h, self.xs, self.memo = h, xs, {}

    def cond(self, c):
        k = c[0]
        if k == "true":
            return z3.BoolVal(True)
        if k == "false":
            return z3.BoolVal(False)
        if k == "not":
            return z3.Not(self.cond(c[1]))
        if k == "and":
            return z3.And(self.cond(c[1]), self.cond(c[2]))
        if k == "or":
            return z3.Or(self.cond(c[1]), self.cond(c[2]))
        if k == "fcmp" and (c[2][0] == "inf" or c[3][0] == "inf"):
            # comparisons against +-infinity over the reals: every real is strictly between -inf and +inf
            p = c[1][1:]
            if c[2][0] == "inf" and c[3][0] == "inf":
                a_, b_ = c[2][1], c[3][1]
            elif c[3][0] == "inf":
                a_, b_ = 0, c[3][1] * 2
            else:
                a_, b_ = c[2][1] * 2, 0
            return z3.BoolVal({"eq": a_ == b_, "ne": a_ != b_, "lt": a_ < b_, "le": a_ <= b_, "gt": a_ > b_, "ge": a_ >= b_}[p])
        if k == "fcmp":
            a, b = self.term(c[2]), self.term(c[3])
            p = c[1]
            return {"oeq": a == b, "ueq": a == b, "one": a != b, "une": a != b, "olt": a < b, "ult": a < b, "ole": a <= b, "ule": a <= b,
                    "ogt": a > b, "ugt": a > b, "oge": a >= b, "uge": a >= b}[p]
        raise ir.NotEncoded("condition " + str(k))

    def term(self, t):
        r = self.memo.get(t)
        if r is not None:
            return r
        k = t[0]
        h = self.h
        if k == "in":
            r = self.xs[t[1]]
        elif k == "c":
            r = z3.RealVal(str(t[1]))
        elif k in ("fadd", "fsub", "fmul"):
            a, b = self.term(t[1]), self.term(t[2])
            r = a + b if k == "fadd" else (a - b if k == "fsub" else a * b)
        elif k == "fdiv":
            r = h.div(self.term(t[1]), self.term(t[2]))
        elif k == "fneg":
            r = -self.term(t[1])
        elif k == "fabs":
            r = h.abs(self.term(t[1]))
        elif k == "sqrt":
            r = h.sqrt(self.term(t[1]))
        elif k == "copysign":
            a, b = self.term(t[1]), self.term(t[2])
            r = z3.If(b >= 0, h.abs(a), -h.abs(a))
        elif k == "fma":
            r = self.term(t[1]) * self.term(t[2]) + self.term(t[3])
        elif k == "ite":
            r = z3.If(self.cond(t[1]), self.term(t[2]), self.term(t[3]))
        elif k in ("min", "max"):
            a, b = self.term(t[1]), self.term(t[2])
            r = z3.If(a < b, a, b) if k == "min" else z3.If(a > b, a, b)
        elif k == "uf":
            name = t[1]
            args = [self.term(x) for x in t[2:]]
            if name == "sin":
                r = h.sin(args[0])
            elif name == "cos":
                r = h.cos(args[0])
            elif name == "tan":
                s, c = h.trig(args[0])
                r = h.div(s, c)
            elif name == "atan2":
                r = h.atan2(args[0], args[1])
            else:
                r = h.uf(name, *args)
        elif k == "frem":
            r = h.uf("frem", self.term(t[1]), self.term(t[2]))
        elif k == "fptrunc":
            r = self.term(t[1])
        else:
            raise ir.NotEncoded("term kind in mode R: " + str(k))
        self.memo[t] = r
        return r


# ---------------------------------------------------------------------------------------------
# mode U: every IEEE operation an uninterpreted function (commutative where IEEE is); decided by z3 over an uninterpreted sort
# ---------------------------------------------------------------------------------------------
class UEnc:
    def __init__(self):
        self.V = z3.DeclareSort("F")
        self.fn, self.memo, self.consts = {}, {}, {}

    def f(self, name, n):
        k = (name, n)
        if k not in self.fn:
            self.fn[k] = z3.Function(name, *([self.V] * (n + 1)))
        return self.fn[k]

    def const(self, key):
        if key not in self.consts:
            self.consts[key] = z3.Const("k_" + str(len(self.consts)), self.V)
        return self.consts[key]

    def term(self, t):
        r = self.memo.get(t)
        if r is not None:
            return r
        k = t[0]
        if k == "in":
            r = z3.Const(f"x{t[1]}", self.V)
        elif k in ("c", "inf", "nan"):
            r = self.const(t)
        elif k in ("fadd", "fmul"):
            a, b = self.term(t[1]), self.term(t[2])
            if str(a) > str(b):     # IEEE + and * are commutative (up to NaN payloads)
                a, b = b, a
            r = self.f(k, 2)(a, b)
        elif k == "ite":
            r = self.f("ite_" + cond_key(t[1]), 2)(self.term(t[2]), self.term(t[3]))
        elif k == "uf":
            r = self.f("uf_" + t[1], len(t) - 2)(*[self.term(x) for x in t[2:]])
        else:
            r = self.f(k, len(t) - 1)(*[self.term(x) for x in t[1:]])
        self.memo[t] = r
        return r


def cond_key(c):
    return str(abs(hash(c)))


# ---------------------------------------------------------------------------------------------
# numeric evaluation of a term DAG, operation by operation in the kernel's float width (translator validation)
# ---------------------------------------------------------------------------------------------
def num_eval(t, xs, ft, memo):
    r = memo.get(t)
    if r is not None:
        return r
    k = t[0]
    E = lambda u: num_eval(u, xs, ft, memo)
    with np.errstate(all="ignore"):
        if k == "in":
            r = ft(xs[t[1]])
        elif k == "c":
            r = ft(float(t[1]))
        elif k == "inf":
            r = ft(float("inf") * t[1])
        elif k == "nan":
            r = ft(float("nan"))
        elif k == "fadd":
            r = ft(E(t[1]) + E(t[2]))
        elif k == "fsub":
            r = ft(E(t[1]) - E(t[2]))
        elif k == "fmul":
            r = ft(E(t[1]) * E(t[2]))
        elif k == "fdiv":
            r = ft(E(t[1]) / E(t[2]))
        elif k == "frem":
            r = ft(np.fmod(E(t[1]), E(t[2])))
        elif k == "fneg":
            r = ft(-E(t[1]))
        elif k == "fabs":
            r = ft(abs(E(t[1])))
        elif k == "sqrt":
            r = ft(np.sqrt(E(t[1])))
        elif k == "copysign":
            r = ft(np.copysign(E(t[1]), E(t[2])))
        elif k == "fma":
            r = ft(float(Fraction(float(E(t[1]))) * Fraction(float(E(t[2]))) + Fraction(float(E(t[3])))))
        elif k == "ite":
            r = E(t[2]) if cond_eval(t[1], xs, ft, memo) else E(t[3])
        elif k == "min":
            a, b = E(t[1]), E(t[2])
            r = a if a < b else b
        elif k == "max":
            a, b = E(t[1]), E(t[2])
            r = a if a > b else b
        elif k == "fptrunc":
            r = np.float32(E(t[1]))
        elif k in ("floor", "ceil", "trunc", "rint"):
            r = ft({"floor": np.floor, "ceil": np.ceil, "trunc": np.trunc, "rint": np.rint}[k](E(t[1])))
        elif k == "uf":
            raise ValueError("uf")     # libm results are not bit-reproducible from numpy: kernels with transcendental calls are validated to 1e-5 only
        else:
            raise ValueError("num_eval " + k)
    memo[t] = r
    return r


def cond_eval(c, xs, ft, memo):
    k = c[0]
    if k == "true":
        return True
    if k == "false":
        return False
    if k == "not":
        return not cond_eval(c[1], xs, ft, memo)
    if k == "and":
        return cond_eval(c[1], xs, ft, memo) and cond_eval(c[2], xs, ft, memo)
    if k == "or":
        return cond_eval(c[1], xs, ft, memo) or cond_eval(c[2], xs, ft, memo)
    a, b = num_eval(c[2], xs, ft, memo), num_eval(c[3], xs, ft, memo)
    un = (a != a) or (b != b)
    p = c[1]
    base = {"eq": a == b, "ne": a != b, "lt": a < b, "le": a <= b, "gt": a > b, "ge": a >= b}[p[1:]]
    if p[0] == "u":
        return bool(un or base) if p != "une" else bool(un or a != b)
    return bool((not un) and base)


class Native:
    """the compiled wrapper crate (cdylib): the real code, used for translator validation and counterexample replay"""
    def __init__(self, so):
        self.lib = ctypes.CDLL(so)

    def call(self, name, xs, nout, elem):
        ct = ctypes.c_float if elem == 4 else ctypes.c_double
        inp = (ct * max(1, len(xs)))(*xs)
        out = (ct * max(1, nout))()
        fn = getattr(self.lib, name)
        fn.restype = None
        fn(inp, out)
        return [out[i] for i in range(nout)]


# ---------------------------------------------------------------------------------------------
# sign normal form: negations are pulled outwards and commutative operands ordered, so that two expression DAGs that differ only in where the compiler
# placed an fneg (bit-identical in IEEE up to the sign of zero / NaN, which mode R does not model) become the same term
# ---------------------------------------------------------------------------------------------
def signnorm(t, memo=None):
    memo = {} if memo is None else memo
    s, c = _sn(t, memo)
    return c if s > 0 else ir.T("fneg", c)


def _key(t):
    return repr(t)


def _sn(t, memo):
    r = memo.get(t)
    if r is not None:
        return r
    k = t[0]
    T = ir.T
    if k == "in" or k in ("inf", "nan"):
        r = (1, t)
    elif k == "c":
        r = (1, t) if t[1] >= 0 else (-1, T("c", -t[1]))
    elif k == "fneg":
        s, c = _sn(t[1], memo)
        r = (-s, c)
    elif k in ("fmul", "fdiv"):
        sa, ca = _sn(t[1], memo)
        sb, cb = _sn(t[2], memo)
        if k == "fmul" and _key(ca) > _key(cb):
            ca, cb = cb, ca
        r = (sa * sb, T(k, ca, cb))
    elif k in ("fadd", "fsub"):
        sa, ca = _sn(t[1], memo)
        sb, cb = _sn(t[2], memo)
        if k == "fsub":
            sb = -sb
        if sa == sb:
            if _key(ca) > _key(cb):
                ca, cb = cb, ca
            r = (sa, T("fadd", ca, cb))
        else:
            # sa*ca + sb*cb with opposite signs: canonical orientation by operand order
            if _key(ca) <= _key(cb):
                r = (sa, T("fsub", ca, cb))
            else:
                r = (sb, T("fsub", cb, ca))
    elif k == "sqrt":
        r = (1, T("sqrt", signnorm(t[1], memo)))
    elif k == "fabs":
        s, c = _sn(t[1], memo)
        r = (1, T("fabs", c))
    elif k == "uf" and t[1] == "sin":
        s, c = _sn(t[2], memo)
        r = (s, T("uf", "sin", c))
    elif k == "uf" and t[1] == "cos":
        s, c = _sn(t[2], memo)
        r = (1, T("uf", "cos", c))
    elif k == "ite":
        r = (1, T("ite", condnorm(t[1], memo), signnorm(t[2], memo), signnorm(t[3], memo)))
    else:
        r = (1, T(k, *[signnorm(x, memo) if isinstance(x, tuple) and x and isinstance(x[0], str) and x[0] not in ("fcmp", "and", "or", "not", "true", "false") else
                       (condnorm(x, memo) if isinstance(x, tuple) and x and x[0] in ("fcmp", "and", "or", "not", "true", "false") else x) for x in t[1:]]))
    memo[t] = r
    return r


def condnorm(c, memo):
    k = c[0]
    if k in ("true", "false"):
        return c
    if k == "not":
        return ir.T("not", condnorm(c[1], memo))
    if k in ("and", "or"):
        return ir.T(k, condnorm(c[1], memo), condnorm(c[2], memo))
    if k == "fcmp":
        return ir.T("fcmp", c[1], signnorm(c[2], memo), signnorm(c[3], memo))
    return c


def unorm(t, memo=None):
    """bit-exact normal form for mode U: order the operands of the commutative IEEE operations and pull negations out of products/quotients
    ((-a)*b == -(a*b) bit for bit, including the sign of zero); nothing that could change a result bit is rewritten."""
    memo = {} if memo is None else memo
    r = memo.get(t)
    if r is not None:
        return r
    if not (isinstance(t, tuple) and t and isinstance(t[0], str)):
        return t
    k = t[0]
    T = ir.T
    args = [unorm(x, memo) if isinstance(x, tuple) else x for x in t[1:]]
    if k in ("fmul", "fdiv"):
        neg = False
        a, b = args
        if a[0] == "fneg":
            a, neg = a[1], not neg
        if b[0] == "fneg":
            b, neg = b[1], not neg
        if a[0] == "c" and a[1] < 0:
            a, neg = T("c", -a[1]), not neg
        if b[0] == "c" and b[1] < 0:
            b, neg = T("c", -b[1]), not neg
        if k == "fmul" and repr(a) > repr(b):
            a, b = b, a
        one = T("c", Fraction(1))
        if k == "fmul" and (a == one or b == one):
            r = b if a == one else a          # x * 1.0 == x bit for bit
        elif k == "fdiv" and b == one:
            r = a
        else:
            r = T(k, a, b)
        if neg:
            r = T("fneg", r)
    elif k == "fadd":
        a, b = args
        if repr(a) > repr(b):
            a, b = b, a
        r = T("fadd", a, b)
    elif k == "fneg" and args[0][0] == "fneg":
        r = args[0][1]
    elif k == "fneg" and args[0][0] == "c":
        r = T("c", -args[0][1])
    elif k == "fsub" and args[1][0] == "fneg":
        a, b = args[0], args[1][1]          # a - (-b) == a + b bit for bit
        if repr(a) > repr(b):
            a, b = b, a
        r = T("fadd", a, b)
    else:
        r = T(k, *args)
    memo[t] = r
    return r
