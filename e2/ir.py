"""E2: concolic interpreter for the optimised LLVM IR of glam kernels.

Integers, pointers and control flow over them are concrete; float lanes are symbolic terms over the kernel inputs. A conditional branch on a symbolic float comparison
forks the path (explored by deterministic re-execution with a decision prefix). Anything outside the supported subset raises NotEncoded - the kernel is then reported
as not encoded, never guessed.

Terms (hash-consed tuples):
  ('in', k) ('c', Fraction) ('inf', sign) ('fadd',a,b) ('fsub',a,b) ('fmul',a,b) ('fdiv',a,b) ('frem',a,b) ('fneg',a) ('fabs',a) ('sqrt',a)
  ('copysign',a,b) ('fma',a,b,c) ('uf',name,args...) ('ite',cond,a,b) ('fpext',a) ('fptrunc',a) ('min',a,b) ('max',a,b) ('floor',a) ...
Conditions: ('fcmp',pred,a,b) ('not',c) ('and',c,d) ('or',c,d) ('true',) ('false',)
"""
import re, struct, sys
from fractions import Fraction

sys.setrecursionlimit(100000)


class NotEncoded(Exception):
    pass


class PathLimit(Exception):
    pass


# ---------------------------------------------------------------------------------------------
# values
# ---------------------------------------------------------------------------------------------
class I:      # concrete integer
    __slots__ = ("v", "bits")

    def __init__(self, v, bits):
        self.bits = bits
        self.v = v & ((1 << bits) - 1)

    def s(self):
        return self.v - (1 << self.bits) if self.v >> (self.bits - 1) else self.v

    def __repr__(self):
        return f"i{self.bits}:{self.v}"


class F:      # symbolic float
    __slots__ = ("t", "w")

    def __init__(self, t, w):
        self.t, self.w = t, w

    def __repr__(self):
        return f"f{self.w}:{self.t}"


class SI:     # integer that is (a masked form of) a float's bit pattern
    __slots__ = ("kind", "t", "bits")

    def __init__(self, kind, t, bits):
        self.kind, self.t, self.bits = kind, t, bits   # kind: bits | sign | abs | mask(cond)

    def __repr__(self):
        return f"si{self.bits}:{self.kind}:{self.t}"


class C:      # symbolic i1
    __slots__ = ("c",)

    def __init__(self, c):
        self.c = c


class P:      # pointer
    __slots__ = ("obj", "off")

    def __init__(self, obj, off):
        self.obj, self.off = obj, off

    def __repr__(self):
        return f"ptr({self.obj}+{self.off})"


POISON = None
_intern = {}


def T(*t):
    return _intern.setdefault(t, t)


def const_term(x):
    if isinstance(x, float):
        if x != x:
            return T("nan")
        if x in (float("inf"), float("-inf")):
            return T("inf", 1 if x > 0 else -1)
        x = Fraction(x)
    return T("c", Fraction(x))


ZERO = const_term(Fraction(0))
ONE = const_term(Fraction(1))


# ---------------------------------------------------------------------------------------------
# parsing
# ---------------------------------------------------------------------------------------------
class Func:
    def __init__(self, name, params, rettype):
        self.name, self.params, self.rettype = name, params, rettype
        self.blocks = {}
        self.order = []


def split_top(s, sep=","):
    out, depth, cur, inq = [], 0, "", False
    for ch in s:
        if ch == '"':
            inq = not inq
        if not inq:
            if ch in "([{<":
                depth += 1
            elif ch in ")]}>":
                depth -= 1
            if ch == sep and depth == 0:
                out.append(cur.strip())
                cur = ""
                continue
        cur += ch
    if cur.strip():
        out.append(cur.strip())
    return out


NAME = r'(?:[%@][-a-zA-Z$._0-9]+|[%@]"[^"]*")'


def parse_module(text, mod=None):
    mod = mod if mod is not None else {"funcs": {}, "globals": {}}
    lines = text.splitlines()
    i = 0
    while i < len(lines):
        l = lines[i]
        if l.startswith("define "):
            m = re.match(r"define .*?(" + NAME + r")\((.*)\)[^()]*\{\s*$", l)
            if not m:
                raise NotEncoded("cannot parse define: " + l[:200])
            name = m.group(1)[1:].strip('"')
            head = l[len("define "):l.index(m.group(1))]
            params = []
            for p in split_top(m.group(2)):
                toks = p.split()
                pname = toks[-1] if toks[-1].startswith("%") else None
                ptype = type_prefix(p)
                params.append((ptype, pname, "sret" in p))
            f = Func(name, params, head.strip())
            i += 1
            cur = None
            while not lines[i].startswith("}"):
                ln = lines[i]
                s = ln.strip()
                i += 1
                if not s or s.startswith(";"):
                    continue
                mm = re.match(r'^("?[-a-zA-Z$._0-9 <>,]+"?):', ln)
                if mm and not ln.startswith(" "):
                    cur = mm.group(1).strip('"')
                    f.blocks[cur] = []
                    f.order.append(cur)
                    continue
                if s.startswith("switch ") and s.endswith("["):
                    while not lines[i].strip().startswith("]"):
                        s += " " + lines[i].strip()
                        i += 1
                    s += " ]"
                    i += 1
                f.blocks[cur].append(s)
            mod["funcs"][name] = f
        elif l.startswith("@"):
            am = re.match(r"(" + NAME + r") = .*?\balias\b.*?, ptr (" + NAME + r")", l)
            if am:   # LLVM's mergefunc turns identical wrappers into aliases
                mod.setdefault("aliases", {})[am.group(1)[1:].strip('"')] = am.group(2)[1:].strip('"')
            m = re.match(r"(" + NAME + r") = .*?(?:constant|global) (.*)", l)
            if m and not am:
                mod["globals"][m.group(1)[1:].strip('"')] = m.group(2)
        i += 1
    return mod


def type_prefix(s):
    """return the leading type of an operand string"""
    s = s.strip()
    if s.startswith("ptr"):
        return "ptr"
    for t in ("float", "double", "half", "void", "i1 ", "i8 ", "i16 ", "i32 ", "i64 ", "i128 "):
        if s.startswith(t.strip()) and (len(s) == len(t.strip()) or not s[len(t.strip())].isalnum()):
            return t.strip()
    if s[0] in "<[{":
        depth = 0
        for k, ch in enumerate(s):
            if ch in "<[{":
                depth += 1
            elif ch in ">]}":
                depth -= 1
                if depth == 0:
                    return s[:k + 1]
    m = re.match(r"i\d+", s)
    if m:
        return m.group(0)
    raise NotEncoded("unknown type in: " + s[:80])


def vec_type(t):
    m = re.fullmatch(r"<(\d+) x (.+)>", t)
    return (int(m.group(1)), m.group(2)) if m else None


def arr_type(t):
    m = re.fullmatch(r"\[(\d+) x (.+)\]", t)
    return (int(m.group(1)), m.group(2)) if m else None


def type_size(t):
    if t == "float":
        return 4
    if t == "double":
        return 8
    if t == "ptr":
        return 8
    m = re.fullmatch(r"i(\d+)", t)
    if m:
        return max(1, int(m.group(1)) // 8)
    v = vec_type(t) or arr_type(t)
    if v:
        return v[0] * type_size(v[1])
    if t.startswith("{"):
        return sum(type_size(x) for x in split_top(t.strip("{} ")))
    raise NotEncoded("size of " + t)


def hexfloat(s, ty):
    if s.startswith("0x"):
        h = s[2:]
        if len(h) == 16:
            return struct.unpack(">d", bytes.fromhex(h))[0]
        raise NotEncoded("float literal " + s)
    return float(s)


# ---------------------------------------------------------------------------------------------
# interpreter
# ---------------------------------------------------------------------------------------------
UF_EXTERNALS = {"sinf": ("sin", 1), "cosf": ("cos", 1), "tanf": ("tan", 1), "acosf": ("acos", 1), "asinf": ("asin", 1), "atanf": ("atan", 1),
                "atan2f": ("atan2", 2), "expf": ("exp", 1), "powf": ("pow", 2), "fmodf": ("frem", 2), "logf": ("log", 1),
                "sin": ("sin", 1), "cos": ("cos", 1), "tan": ("tan", 1), "acos": ("acos", 1), "asin": ("asin", 1), "atan": ("atan", 1),
                "atan2": ("atan2", 2), "exp": ("exp", 1), "pow": ("pow", 2), "fmod": ("frem", 2), "log": ("log", 1)}


class Machine:
    def __init__(self, mod, in_elem=4, max_paths=64, max_steps=200000, opaque=False):
        self.opaque = opaque      # mode U: integer / bit-level operations on symbolic lanes become uninterpreted terms instead of NotEncoded
        self.mod = mod
        self.in_elem = in_elem
        self.max_paths = max_paths
        self.max_steps = max_steps

    def func(self, name):
        seen = 0
        while name in self.mod.get("aliases", {}) and seen < 8:
            name = self.mod["aliases"][name]
            seen += 1
        return self.mod["funcs"].get(name)

    # -- memory -------------------------------------------------------------------------------
    def new_obj(self, kind):
        self.nobj += 1
        oid = f"{kind}{self.nobj}"
        self.mem[oid] = {}
        return oid

    def load_lane(self, p, size, fw):
        """load one scalar lane of `size` bytes at pointer p; fw = float width expected (or None for integer)"""
        m = self.mem.get(p.obj)
        if m is None:
            raise NotEncoded(f"load from unknown object {p.obj}")
        if p.obj == "in":
            if size != self.in_elem or p.off % size:
                raise NotEncoded(f"input load of size {size} at offset {p.off}")
            k = p.off // size
            self.max_in = max(self.max_in, k)
            return F(T("in", k), size * 8)
        ent = m.get(p.off)
        if ent is None and p.obj in self.gbytes:
            raw = self.gbytes[p.obj]
            if p.off + size <= len(raw):
                return I(int.from_bytes(raw[p.off:p.off + size], "little"), size * 8)
        if ent is None:
            for (a, b) in self.zero.get(p.obj, []):
                if a <= p.off and p.off + size <= b and not any(a2 < p.off + size and a2 + e2[1] > p.off for a2, e2 in m.items()):
                    return I(0, size * 8)
            if p.obj.startswith("g:"):
                raise NotEncoded("load from constant global at unknown offset")
            return POISON
        val, sz = ent
        if sz != size:
            raise NotEncoded(f"load size {size} != stored size {sz} at {p}")
        return val

    def store_lane(self, p, val, size):
        m = self.mem.get(p.obj)
        if m is None:
            raise NotEncoded(f"store to unknown object {p.obj}")
        if p.obj == "in":
            raise NotEncoded("store to the input buffer")
        # overlapping partial stores are not supported (lane-aligned, typed memory)
        for o in range(p.off - 15, p.off + size):
            e = m.get(o)
            if e is not None and o != p.off and o + e[1] > p.off and o < p.off + size:
                del m[o]   # overwritten region: drop the stale lane (a later mismatching load reports NotEncoded/poison)
        m[p.off] = (val, size)

    def load(self, ty, p):
        v = vec_type(ty) or arr_type(ty)
        if v:
            n, et = v
            es = type_size(et)
            return [self.load(et, P(p.obj, p.off + k * es)) for k in range(n)]
        if ty.startswith("{"):
            out, off = [], 0
            for et in split_top(ty.strip("{} ")):
                out.append(self.load(et, P(p.obj, p.off + off)))
                off += type_size(et)
            return out
        size = type_size(ty)
        if ty in ("float", "double"):
            val = self.load_lane(p, size, size * 8)
            if isinstance(val, SI) and val.kind == "bits":
                return F(val.t, size * 8)
            if isinstance(val, I):
                return F(const_term(int_bits_to_float(val.v, size * 8)), size * 8)
            return val
        if ty == "ptr":
            val = self.load_lane(p, 8, None)
            return val
        # integer load
        m = self.mem.get(p.obj, {})
        ent = m.get(p.off) if p.obj != "in" else None
        if p.obj == "in" or (ent is not None and ent[1] != size):
            # integer load covering whole float lanes (memcpy-like moves): build a blob
            lanes = []
            ls = self.in_elem if p.obj == "in" else ent[1]
            if size % ls:
                raise NotEncoded(f"integer load i{size*8} over lanes of {ls} bytes")
            for k in range(size // ls):
                lanes.append(self.load_lane(P(p.obj, p.off + k * ls), ls, None))
            return ("blob", lanes, ls)
        val = self.load_lane(p, size, None)
        if isinstance(val, F):
            return SI("bits", val.t, size * 8)
        return val

    def store(self, ty, val, p):
        v = vec_type(ty) or arr_type(ty)
        if v:
            n, et = v
            es = type_size(et)
            if val is POISON:
                val = [POISON] * n
            for k in range(n):
                self.store(et, val[k], P(p.obj, p.off + k * es))
            return
        if ty.startswith("{"):
            off = 0
            for k, et in enumerate(split_top(ty.strip("{} "))):
                self.store(et, val[k], P(p.obj, p.off + off))
                off += type_size(et)
            return
        if isinstance(val, tuple) and val and val[0] == "blob":
            _, lanes, ls = val
            for k, lv in enumerate(lanes):
                self.store_lane(P(p.obj, p.off + k * ls), lv, ls)
            return
        self.store_lane(p, val, type_size(ty))

    # -- operands -----------------------------------------------------------------------------
    def operand(self, ty, s, env):
        s = s.strip()
        if s.startswith("%"):
            key = s[1:].strip('"')
            if key not in env:
                raise NotEncoded("undefined value " + s)
            return env[key]
        if s.startswith("@"):
            g = s[1:].strip('"')
            return self.global_ptr(g)
        if s in ("poison", "undef"):
            return POISON
        v = vec_type(ty)
        if v:
            n, et = v
            if s == "zeroinitializer":
                return [self.operand(et, "0" if et.startswith("i") else "0.0", env) for _ in range(n)]
            m = re.fullmatch(r"splat \((.*)\)", s)
            if m:
                e = self.operand(et, m.group(1)[len(et):].strip(), env)
                return [e] * n
            if s.startswith("<"):
                return [self.operand(et, x[len(type_prefix(x)):].strip(), env) for x in split_top(s[1:-1])]
            raise NotEncoded("vector constant " + s)
        a = arr_type(ty)
        if a:
            n, et = a
            if s == "zeroinitializer":
                return [self.operand(et, "zeroinitializer" if (vec_type(et) or arr_type(et)) else ("0" if et.startswith("i") else "0.0"), env) for _ in range(n)]
            if s.startswith("["):
                return [self.operand(et, x[len(type_prefix(x)):].strip(), env) for x in split_top(s[1:-1])]
            if s.startswith('c"'):
                raise NotEncoded("string constant")
        if ty in ("float", "double"):
            w = 32 if ty == "float" else 64
            if s == "zeroinitializer":
                return F(ZERO, w)
            return F(const_term(hexfloat(s, ty)), w)
        m = re.fullmatch(r"i(\d+)", ty)
        if m:
            b = int(m.group(1))
            if s == "true":
                return I(1, b)
            if s == "false":
                return I(0, b)
            if s == "zeroinitializer":
                return I(0, b)
            return I(int(s), b)
        if ty == "ptr":
            if s == "null":
                return P("null", 0)
            m = re.fullmatch(r"getelementptr inbounds \((.*)\)", s)
            raise NotEncoded("pointer constant " + s[:60])
        if ty.startswith("{") and s == "zeroinitializer":
            return [self.operand(et, "zeroinitializer", env) for et in split_top(ty.strip("{} "))]
        raise NotEncoded(f"operand {ty} {s[:60]}")

    def global_ptr(self, g):
        oid = "g:" + g
        if oid not in self.mem:
            init = self.mod["globals"].get(g)
            if init is None:
                raise NotEncoded("unknown global @" + g)
            self.mem[oid] = {}
            self.init_global(oid, init)
        return P(oid, 0)

    def init_global(self, oid, init):
        init = re.sub(r", align \d+.*$", "", init).strip()
        bm = re.search(r'c"((?:[^"\\]|\\[0-9A-Fa-f]{2})*)"', init)
        if bm and init.count('c"') == 1 and re.match(r'^(<\{ )?\[\d+ x i8\]', init):
            # constant data emitted as a byte string (e.g. a constant column (0,0,0,1)): keep the raw bytes, decode on load
            raw, t, k = bytearray(), bm.group(1), 0
            while k < len(t):
                if t[k] == "\\":
                    raw.append(int(t[k + 1:k + 3], 16)); k += 3
                else:
                    raw.append(ord(t[k])); k += 1
            self.gbytes[oid] = bytes(raw)
            return
        ty = type_prefix(init)
        rest = init[len(ty):].strip()
        try:
            val = self.operand(ty, rest, {})
        except NotEncoded:
            # packed struct of byte arrays etc.: <{ [N x i8] c"..." }> is not needed by float kernels
            raise
        self.store(ty, val, P(oid, 0))

    # -- float / int helpers ------------------------------------------------------------------
    def fbin(self, op, a, b):
        if a is POISON or b is POISON:
            return POISON
        if a.t[0] == "c" and b.t[0] == "c" and op in ("fadd", "fsub", "fmul"):
            # constant lanes of a vector operation (e.g. 0.0 - 0.0 in a padded lane): fold when the result is exact in the lane's format
            x, y = a.t[1], b.t[1]
            r = x + y if op == "fadd" else (x - y if op == "fsub" else x * y)
            rf = float(r)
            if Fraction(rf) == r and (a.w == 64 or Fraction(struct.unpack("<f", struct.pack("<f", rf))[0]) == r):
                return F(T("c", r), a.w)
        return F(T(op, a.t, b.t), a.w)

    def lanes2(self, ty, a, b, f):
        if vec_type(ty):
            if a is POISON:
                a = [POISON] * vec_type(ty)[0]
            if b is POISON:
                b = [POISON] * vec_type(ty)[0]
            return [f(x, y) for x, y in zip(a, b)]
        return f(a, b)

    def int_bin(self, op, a, b, bits):
        if a is POISON or b is POISON:
            return POISON
        isblob = lambda v: isinstance(v, tuple) and v and v[0] == "blob"
        if (isblob(a) or isblob(b)) and op in ("and", "or", "xor"):
            # wide integer covering several float lanes (e.g. two f32 sign flips in one i64 xor): do it lane by lane
            bl = a if isblob(a) else b
            ls = bl[2]
            lb = ls * 8
            n = len(bl[1])

            def lanes(v):
                if isblob(v):
                    return [SI("bits", x.t, lb) if isinstance(x, F) else x for x in v[1]]
                return [I((v.v >> (k * lb)) & ((1 << lb) - 1), lb) for k in range(n)]
            return ("blob", [self.int_bin(op, x, y, lb) for x, y in zip(lanes(a), lanes(b))], ls)
        if isinstance(a, I) and isinstance(b, I):
            x, y, sx, sy = a.v, b.v, a.s(), b.s()
            r = {"add": x + y, "sub": x - y, "mul": x * y, "and": x & y, "or": x | y, "xor": x ^ y,
                 "shl": x << (y % (2 * bits)), "lshr": x >> y if y < bits else 0, "ashr": sx >> min(y, bits - 1),
                 "udiv": x // y if y else 0, "sdiv": int(sx / sy) if sy else 0, "urem": x % y if y else 0, "srem": (sx - sy * int(sx / sy)) if sy else 0}[op]
            return I(r, bits)
        # symbolic i1 algebra
        if bits == 1 and (isinstance(a, C) or isinstance(b, C)):
            ca = a.c if isinstance(a, C) else (T("true") if a.v else T("false"))
            cb = b.c if isinstance(b, C) else (T("true") if b.v else T("false"))
            if op == "and":
                return C(T("and", ca, cb))
            if op == "or":
                return C(T("or", ca, cb))
            if op == "xor":
                return C(T("or", T("and", ca, T("not", cb)), T("and", T("not", ca), cb)))
        # bit tricks on float bit patterns
        sa, sb = (a, b) if isinstance(a, SI) else (b, a)
        if isinstance(sa, SI) and isinstance(sb, I):
            signmask, absmask, full = 1 << (bits - 1), (1 << (bits - 1)) - 1, (1 << bits) - 1
            if sa.kind == "bits":
                if op == "and" and sb.v == absmask:
                    return SI("bits", T("fabs", sa.t), bits)
                if op == "and" and sb.v == signmask:
                    return SI("sign", sa.t, bits)
                if op == "xor" and sb.v == signmask:
                    return SI("bits", T("fneg", sa.t), bits)
                if op == "or" and sb.v == signmask:
                    return SI("bits", T("fneg", T("fabs", sa.t)), bits)
                if op in ("and",) and sb.v == full:
                    return sa
                if op in ("or", "xor") and sb.v == 0:
                    return sa
                if op == "and" and sb.v == 0:
                    return I(0, bits)
            if sa.kind == "mask":   # lane mask from a comparison: all-ones / zero
                if op == "and":
                    return SI("maskc", (sa.t, sb.v), bits)   # cond ? const : 0
        if isinstance(a, SI) and isinstance(b, SI):
            # or(abs-bits(a), sign(b)) -> copysign(a, b)
            for x, y in ((a, b), (b, a)):
                if op == "or" and x.kind == "bits" and x.t[0] == "fabs" and y.kind == "sign":
                    return SI("bits", T("copysign", x.t[1], y.t), bits)
                if op == "or" and x.kind == "sign" and y.kind == "bits" and y.t[0] == "c" and y.t[1] >= 0:
                    return SI("bits", T("copysign", y.t, x.t), bits)
                if op == "xor" and x.kind == "bits" and y.kind == "sign":
                    # flips x's sign where y is negative: x * sign(y)
                    return SI("bits", T("fmul", x.t, T("copysign", ONE, y.t)), bits)
                # select by mask: and(mask, bits(v))
                if op == "and" and x.kind == "mask" and y.kind == "bits":
                    return SI("bits", T("ite", x.t, y.t, ZERO), bits)
                if op == "and" and x.kind == "nmask" and y.kind == "bits":
                    return SI("bits", T("ite", x.t, ZERO, y.t), bits)
            if op == "or" and a.kind == "bits" and b.kind == "bits" and a.t[0] == "ite" and b.t[0] == "ite":
                # or(and(m, x), andnot(m, y))
                if a.t[1] == b.t[1] and a.t[3] == ZERO and b.t[2] == ZERO:
                    return SI("bits", T("ite", a.t[1], a.t[2], b.t[3]), bits)
                if a.t[1] == b.t[1] and a.t[2] == ZERO and b.t[3] == ZERO:
                    return SI("bits", T("ite", a.t[1], b.t[2], a.t[3]), bits)
        if isinstance(a, SI) and a.kind == "mask" and isinstance(b, I) and op == "xor" and b.v == (1 << bits) - 1:
            return SI("nmask", a.t, bits)
        if isinstance(sa, SI) and sa.kind == "bits" and isinstance(sb, I) and op == "or" and sa.t[0] == "c" and False:
            pass
        if isinstance(sa, SI) and sa.kind == "sign" and isinstance(sb, I) and op == "or":
            # or(sign(x), bits-of-positive-constant) = copysign(const, x)
            c = int_bits_to_float(sb.v, bits)
            if c >= 0:
                return SI("bits", T("copysign", const_term(c), sa.t), bits)
        if self.opaque:
            return SI("bits", T("iop_" + op, self.as_term(a), self.as_term(b), bits), bits)
        raise NotEncoded(f"integer op {op} on {a} , {b}")

    def as_term(self, v):
        if isinstance(v, I):
            return T("ci", v.v, v.bits)
        if isinstance(v, F):
            return v.t
        if isinstance(v, SI):
            return v.t if v.kind == "bits" else T("si_" + v.kind, v.t if isinstance(v.t, tuple) and v.t and isinstance(v.t[0], str) else T("k", repr(v.t)))
        if isinstance(v, C):
            return T("cond", v.c)
        if isinstance(v, tuple) and v and v[0] in ("fptoi", "cint"):
            return T(v[0], v[1])
        if isinstance(v, tuple) and v and v[0] == "blob":
            return T("blob", *[self.as_term(x) for x in v[1]])
        if v is POISON:
            return T("poison")
        raise NotEncoded("as_term " + repr(v))

    # -- execution ----------------------------------------------------------------------------
    def run_kernel(self, fname, n_out_hint=None):
        """explore all paths of kernel `fname(ptr in, ptr out)`. returns list of (path_condition_list, {out_index: term})"""
        results = []
        stack = [[]]
        while stack:
            prefix = stack.pop()
            if len(results) >= self.max_paths:
                raise PathLimit(f"more than {self.max_paths} paths")
            self.decisions, self.dpos, self.pathcond = list(prefix), 0, []
            self.mem, self.nobj, self.steps, self.max_in, self.zero, self.gbytes = {"in": {}, "out": {}}, 0, 0, -1, {}, {}
            f = self.func(fname)
            if f is None:
                raise NotEncoded("kernel not found in IR: " + fname)
            self.call(f, [P("in", 0), P("out", 0)])
            outs = {}
            es = self.in_elem
            for (a, b) in self.zero.get("out", []):
                for off in range(a - a % es, b, es):
                    if a <= off and off + es <= b:
                        outs[off // es] = ZERO
            for off, (val, size) in self.mem["out"].items():
                if off % size or size != es:
                    raise NotEncoded(f"output store of size {size} at offset {off}")
                if isinstance(val, I):
                    val = F(const_term(int_bits_to_float(val.v, size * 8)), size * 8)
                if isinstance(val, SI) and val.kind == "bits":
                    val = F(val.t, size * 8)
                if not isinstance(val, F):
                    raise NotEncoded(f"output lane {off // size} is not a float term: {val!r}")
                outs[off // size] = val.t
            results.append((list(self.pathcond), outs))
            for k in range(len(prefix), len(self.decisions)):
                stack.append(self.decisions[:k] + [not self.decisions[k]])
        return results

    def decide(self, cond):
        """branch on symbolic condition: take the recorded decision or default to True"""
        if self.dpos < len(self.decisions):
            d = self.decisions[self.dpos]
        else:
            d = True
            self.decisions.append(d)
        self.dpos += 1
        self.pathcond.append(cond if d else T("not", cond))
        return d

    def call(self, f, args):
        env = {}
        for (pty, pname, _), a in zip(f.params, args):
            if pname:
                env[pname[1:].strip('"')] = a
        cur, prev = f.order[0], None
        while True:
            for ins in f.blocks[cur]:
                self.steps += 1
                if self.steps > self.max_steps:
                    raise NotEncoded("step limit (loop?)")
                r = self.step(f, ins, env, cur, prev)
                if r is None:
                    continue
                kind, v = r
                if kind == "ret":
                    return v
                if kind == "br":
                    prev, cur = cur, v
                    break
            else:
                raise NotEncoded("block without terminator")

    def step(self, f, ins, env, cur, prev):
        m = re.match(r"(" + NAME + r") = (.*)$", ins)
        dst = None
        if m:
            dst, ins = m.group(1)[1:].strip('"'), m.group(2)
        ins = re.sub(r", ![a-zA-Z_.]+ ![0-9]+", "", ins)
        ins = re.sub(r", !noundef !\d+|, !nonnull !\d+", "", ins)
        op = ins.split()[0]
        if op in ("tail", "musttail", "notail"):
            ins = ins.split(None, 1)[1]
            op = "call"
        val = self.exec_op(op, ins, env, cur, prev, f)
        if isinstance(val, tuple) and val and val[0] in ("ret", "br"):
            return val
        if dst is not None:
            env[dst] = val
        return None

    def exec_op(self, op, ins, env, cur, prev, f):
        O = self.operand
        if op in ("fadd", "fsub", "fmul", "fdiv", "frem"):
            body = re.sub(r"^\w+ (?:(?:nnan|ninf|nsz|arcp|contract|afn|reassoc|fast) )*", "", ins)
            if re.search(r"\b(reassoc|contract|fast|arcp|afn)\b", ins[:60]):
                raise NotEncoded("fast-math flags on " + ins[:60])
            ty = type_prefix(body)
            a, b = split_top(body[len(ty):])
            return self.lanes2(ty, O(ty, a, env), O(ty, b, env), lambda x, y: self.fbin(op, x, y))
        if op == "fneg":
            body = ins[len("fneg "):]
            ty = type_prefix(body)
            a = O(ty, body[len(ty):], env)
            g = lambda x: POISON if x is POISON else F(T("fneg", x.t), x.w)
            return [g(x) for x in a] if vec_type(ty) else g(a)
        if op in ("add", "sub", "mul", "and", "or", "xor", "shl", "lshr", "ashr", "udiv", "sdiv", "urem", "srem"):
            body = re.sub(r"^\w+ (?:(?:nuw|nsw|exact|disjoint) )*", "", ins)
            ty = type_prefix(body)
            a, b = split_top(body[len(ty):])
            et = vec_type(ty)[1] if vec_type(ty) else ty
            bits = int(et[1:])
            return self.lanes2(ty, O(ty, a, env), O(ty, b, env), lambda x, y: self.int_bin(op, x, y, bits))
        if op == "load":
            m = re.match(r"load (?:volatile )?(.+?), ptr (" + NAME + r")", ins)
            ty, p = m.group(1), O("ptr", m.group(2), env)
            return self.load(ty, p)
        if op == "store":
            m = re.match(r"store (?:volatile )?(.+), ptr (" + NAME + r")(?:, align \d+)?$", ins)
            tv = m.group(1)
            ty = type_prefix(tv)
            self.store(ty, O(ty, tv[len(ty):], env), O("ptr", m.group(2), env))
            return None
        if op == "getelementptr":
            m = re.match(r"getelementptr (?:inbounds |nuw |nusw )*(.+?), ptr (" + NAME + r")(.*)$", ins)
            bty, p = m.group(1), O("ptr", m.group(2), env)
            idx = split_top(m.group(3).lstrip(", "))
            off, ty = p.off, bty
            for k, ix in enumerate(idx):
                ity = type_prefix(ix)
                iv = O(ity, ix[len(ity):], env)
                if not isinstance(iv, I):
                    raise NotEncoded("symbolic GEP index")
                n = iv.s()
                if k == 0:
                    off += n * type_size(ty)
                else:
                    a = arr_type(ty) or vec_type(ty)
                    if a:
                        ty = a[1]
                        off += n * type_size(ty)
                    elif ty.startswith("{"):
                        els = split_top(ty.strip("{} "))
                        off += sum(type_size(e) for e in els[:n])
                        ty = els[n]
                    else:
                        raise NotEncoded("GEP into " + ty)
            return P(p.obj, off)
        if op == "alloca":
            return P(self.new_obj("a"), 0)
        if op == "ret":
            if ins.strip() == "ret void":
                return ("ret", None)
            body = ins[4:]
            ty = type_prefix(body)
            return ("ret", O(ty, body[len(ty):], env))
        if op == "br":
            m = re.match(r"br label %(.+)$", ins)
            if m:
                return ("br", m.group(1).strip('"'))
            m = re.match(r"br i1 (.+?), label %(.+?), label %(.+)$", ins)
            c = O("i1", m.group(1), env)
            t, e = m.group(2).strip('"'), m.group(3).strip('"')
            if isinstance(c, I):
                return ("br", t if c.v else e)
            if isinstance(c, C):
                return ("br", t if self.decide(c.c) else e)
            raise NotEncoded("branch on " + repr(c))
        if op == "switch":
            m = re.match(r"switch (i\d+) (.+?), label %(\S+) \[(.*)\]", ins)
            v = O(m.group(1), m.group(2), env)
            if not isinstance(v, I):
                raise NotEncoded("switch on symbolic value")
            for cm in re.finditer(r"i\d+ (-?\d+), label %(\S+)", m.group(4)):
                if I(int(cm.group(1)), v.bits).v == v.v:
                    return ("br", cm.group(2).strip('"'))
            return ("br", m.group(3).strip('"'))
        if op == "unreachable":
            raise NotEncoded("reached `unreachable`")
        if op == "phi":
            m = re.match(r"phi (?:(?:nnan|ninf|nsz) )*(.+?) (\[.*)$", ins)
            ty = m.group(1)
            for pm in re.finditer(r"\[ (.+?), %(\"[^\"]*\"|[-a-zA-Z$._0-9]+) \]", m.group(2)):
                if pm.group(2).strip('"') == prev:
                    return O(ty, pm.group(1), env)
            raise NotEncoded("phi without matching predecessor " + str(prev))
        if op == "select":
            m = re.match(r"select (?:(?:nnan|ninf|nsz) )*(.+)$", ins)
            parts = split_top(m.group(1))
            cty = type_prefix(parts[0])
            c = O(cty, parts[0][len(cty):], env)
            ty = type_prefix(parts[1])
            a, b = O(ty, parts[1][len(ty):], env), O(ty, parts[2][len(type_prefix(parts[2])):], env)

            def sel(c, a, b):
                if isinstance(c, I):
                    return a if c.v else b
                if c is POISON:
                    return POISON
                if isinstance(c, C):
                    if a is POISON or b is POISON:
                        return a if b is POISON else b
                    if isinstance(a, F):
                        return F(T("ite", c.c, a.t, b.t), a.w)
                    if isinstance(a, C) or isinstance(b, C) or (isinstance(a, I) and a.bits == 1):
                        ca = a.c if isinstance(a, C) else (T("true") if a.v else T("false"))
                        cb = b.c if isinstance(b, C) else (T("true") if b.v else T("false"))
                        return C(T("or", T("and", c.c, ca), T("and", T("not", c.c), cb)))
                    if isinstance(a, I) and isinstance(b, I) and a.v == b.v:
                        return a
                    if isinstance(a, I) and isinstance(b, I):
                        # integer chosen by a float comparison: fork the path
                        return a if self.decide(c.c) else b
                    if isinstance(a, SI) and isinstance(b, SI) and a.kind == "bits" and b.kind == "bits":
                        return SI("bits", T("ite", c.c, a.t, b.t), a.bits)
                if self.opaque and isinstance(c, C):
                    bits = getattr(a, "bits", getattr(b, "bits", 32))
                    return SI("bits", T("ite", c.c, self.as_term(a), self.as_term(b)), bits)
                raise NotEncoded(f"select {c} ? {a} : {b}")
            if vec_type(ty):
                n = vec_type(ty)[0]
                cs = c if isinstance(c, list) else [c] * n
                a = a if a is not POISON else [POISON] * n
                b = b if b is not POISON else [POISON] * n
                return [sel(x, y, z) for x, y, z in zip(cs, a, b)]
            return sel(c, a, b)
        if op == "fcmp":
            m = re.match(r"fcmp (?:(?:nnan|ninf|nsz) )*(\w+) (.+)$", ins)
            pred, body = m.group(1), m.group(2)
            ty = type_prefix(body)
            a, b = split_top(body[len(ty):])
            va, vb = O(ty, a, env), O(ty, b, env)

            def cmp(x, y):
                if x is POISON or y is POISON:
                    return POISON
                if pred in ("ord", "true"):
                    return I(1, 1)
                if pred in ("uno", "false"):
                    return I(0, 1)
                return C(T("fcmp", pred, x.t, y.t))
            return self.lanes2(ty, va, vb, cmp)
        if op == "icmp":
            m = re.match(r"icmp (?:samesign )?(\w+) (.+)$", ins)
            pred, body = m.group(1), m.group(2)
            ty = type_prefix(body)
            a, b = split_top(body[len(ty):])
            va, vb = O(ty, a, env), O(ty, b, env)

            def icmp(x, y):
                if x is POISON or y is POISON:
                    return POISON
                if isinstance(x, P) and isinstance(y, P):
                    eq = (x.obj == y.obj and x.off == y.off)
                    return I(int(eq if pred == "eq" else not eq), 1)
                if isinstance(x, I) and isinstance(y, I):
                    r = {"eq": x.v == y.v, "ne": x.v != y.v, "ult": x.v < y.v, "ule": x.v <= y.v, "ugt": x.v > y.v, "uge": x.v >= y.v,
                         "slt": x.s() < y.s(), "sle": x.s() <= y.s(), "sgt": x.s() > y.s(), "sge": x.s() >= y.s()}[pred]
                    return I(int(r), 1)
                if isinstance(x, SI) and x.kind == "bits" and isinstance(y, I):
                    if pred == "slt" and y.v == 0:
                        return C(T("fcmp", "olt", x.t, ZERO))     # sign-bit test (ignores -0 / NaN sign)
                    if pred == "sgt" and y.s() == -1:
                        return C(T("fcmp", "oge", x.t, ZERO))
                if self.opaque:
                    return C(T("icmp", pred, self.as_term(x), self.as_term(y)))
                raise NotEncoded(f"icmp {pred} {x} {y}")
            return self.lanes2(ty, va, vb, icmp)
        if op in ("zext", "sext", "trunc", "bitcast", "fpext", "fptrunc", "sitofp", "uitofp", "fptosi", "fptoui", "ptrtoint", "inttoptr", "freeze"):
            if op == "freeze":
                body = ins[len("freeze "):]
                ty = type_prefix(body)
                return O(ty, body[len(ty):], env)
            m = re.match(r"\w+ (?:(?:nneg|nuw|nsw) )*(.+) to (.+)$", ins)
            src, dty = m.group(1), m.group(2).strip()
            sty = type_prefix(src)
            v = O(sty, src[len(sty):], env)
            return self.cast(op, v, sty, dty)
        if op == "extractelement":
            m = re.match(r"extractelement (<.+?>) (.+), (i\d+) (.+)$", ins)
            v, i = O(m.group(1), m.group(2), env), O(m.group(3), m.group(4), env)
            if v is POISON:
                return POISON
            return v[i.v]
        if op == "insertelement":
            m = re.match(r"insertelement (<.+?>) (.+)$", ins)
            vty = m.group(1)
            parts = split_top(m.group(2))
            v = O(vty, parts[0], env)
            ety = type_prefix(parts[1])
            e = O(ety, parts[1][len(ety):], env)
            ity = type_prefix(parts[2])
            i = O(ity, parts[2][len(ity):], env)
            n = vec_type(vty)[0]
            v = list(v) if v is not POISON else [POISON] * n
            v[i.v] = e
            return v
        if op == "shufflevector":
            m = re.match(r"shufflevector (<.+?>) (.+)$", ins)
            vty = m.group(1)
            parts = split_top(m.group(2))
            n = vec_type(vty)[0]
            a = O(vty, parts[0], env)
            b = O(vty, parts[1][len(vty):], env)
            a = a if a is not POISON else [POISON] * n
            b = b if b is not POISON else [POISON] * n
            mty = type_prefix(parts[2])
            mask = parts[2][len(mty):].strip()
            k = vec_type(mty)[0]
            if mask == "zeroinitializer":
                idx = [0] * k
            elif mask in ("poison", "undef"):
                idx = [None] * k
            else:
                idx = [None if x.split()[1] in ("poison", "undef") else int(x.split()[1]) for x in split_top(mask[1:-1])]
            both = a + b
            return [POISON if i is None else both[i] for i in idx]
        if op == "extractvalue":
            m = re.match(r"extractvalue (.+?) (" + NAME + r"|zeroinitializer|poison|undef), (.+)$", ins)
            v = O(m.group(1), m.group(2), env)
            for i in split_top(m.group(3)):
                if v is POISON:
                    return POISON
                v = v[int(i)]
            return v
        if op == "insertvalue":
            m = re.match(r"insertvalue (.+)$", ins)
            parts = split_top(m.group(1))
            aty = type_prefix(parts[0])
            agg = O(aty, parts[0][len(aty):], env)
            ety = type_prefix(parts[1])
            e = O(ety, parts[1][len(ety):], env)
            n = len(split_top(aty.strip("{} "))) if aty.startswith("{") else arr_type(aty)[0]
            agg = list(agg) if agg is not POISON else [POISON] * n
            idx = [int(x) for x in parts[2:]]
            if len(idx) != 1:
                raise NotEncoded("nested insertvalue")
            agg[idx[0]] = e
            return agg
        if op == "call":
            return self.do_call(ins, env)
        raise NotEncoded("instruction " + ins[:80])

    def cast(self, op, v, sty, dty):
        if vec_type(dty) and op != "bitcast":
            n, et = vec_type(dty)
            st = vec_type(sty)[1]
            v = v if v is not POISON else [POISON] * n
            return [self.cast(op, x, st, et) for x in v]
        if v is POISON:
            return POISON
        if op in ("zext", "sext", "trunc"):
            b = int(dty[1:])
            if isinstance(v, I):
                return I(v.s() if op == "sext" else v.v, b)
            if isinstance(v, C):
                if op == "zext":
                    return ("cint", v.c, b)      # 0/1 integer driven by a float comparison
                if op == "sext":
                    return SI("mask", v.c, b)
            if isinstance(v, tuple) and v[0] == "blob" and op == "trunc":
                _, lanes, ls = v
                if b // 8 == ls:
                    x = lanes[0]
                    return SI("bits", x.t, b) if isinstance(x, F) else x
            if self.opaque:
                return SI("bits", T("cast_" + op, self.as_term(v), b), b)
            raise NotEncoded(f"{op} of {v}")
        if op == "bitcast":
            sv, dv = vec_type(sty), vec_type(dty)
            if sv and dv and sv[0] == dv[0]:
                v = v if v is not POISON else [POISON] * sv[0]
                return [self.cast("bitcast", x, sv[1], dv[1]) for x in v]
            if not sv and not dv:
                if sty in ("float", "double") and dty.startswith("i"):
                    return SI("bits", v.t, int(dty[1:]))
                if sty.startswith("i") and dty in ("float", "double"):
                    w = 32 if dty == "float" else 64
                    if isinstance(v, SI) and v.kind == "bits":
                        return F(v.t, w)
                    if isinstance(v, SI) and v.kind == "maskc":
                        cond, cv = v.t
                        return F(T("ite", cond, const_term(int_bits_to_float(cv, w)), ZERO), w)
                    if isinstance(v, SI) and v.kind == "sign":
                        return F(T("copysign", ZERO, v.t), w)
                    if isinstance(v, I):
                        return F(const_term(int_bits_to_float(v.v, w)), w)
                if sty == dty:
                    return v
            if sv and dv and sv[0] != dv[0]:
                # regroup lanes: <4 x float> <-> <2 x i64> etc.
                v = v if v is not POISON else [POISON] * sv[0]
                flatl, ls = [], None
                for x in v:
                    if isinstance(x, tuple) and x and x[0] == "blob":
                        flatl += list(x[1])
                        ls = x[2]
                    else:
                        flatl.append(x)
                        ls = ls or type_size(sv[1])
                ds = type_size(dv[1])
                if ds == ls:
                    w = ds * 8
                    conv = lambda x: (F(x.t, w) if isinstance(x, SI) and x.kind == "bits" and dv[1] in ("float", "double") else x)
                    return [conv(x) for x in flatl]
                if ds > ls and ds % ls == 0:
                    g = ds // ls
                    return [("blob", flatl[k * g:(k + 1) * g], ls) for k in range(dv[0])]
            if sv and not dv and type_size(sty) == type_size(dty):
                return ("blob", list(v), type_size(sv[1]))
            if dv and not sv and isinstance(v, tuple) and v[0] == "blob":
                lanes = v[1]
                if len(lanes) == dv[0]:
                    return [F(x.t, 32 if dv[1] == "float" else 64) if isinstance(x, (F, SI)) and dv[1] in ("float", "double") else x for x in lanes]
            raise NotEncoded(f"bitcast {sty} -> {dty} of {v}")
        if op == "fpext":
            return F(v.t, 64)            # exact
        if op == "fptrunc":
            return F(T("fptrunc", v.t), 32)
        if op in ("sitofp", "uitofp"):
            w = 32 if dty == "float" else 64
            if isinstance(v, I):
                return F(const_term(Fraction(v.s() if op == "sitofp" else v.v)), w)
            if isinstance(v, tuple) and v[0] == "cint":
                return F(T("ite", v[1], ONE, ZERO), w)
            if isinstance(v, SI) and v.kind == "mask" and op == "sitofp":
                return F(T("ite", v.t, const_term(Fraction(-1)), ZERO), w)
            if isinstance(v, tuple) and v[0] == "fptoi":
                return F(T("trunc", v[1]), w)     # (x as i32) as f32, |x| < 2^31 assumed by the kernel's own range guard
            if self.opaque:
                return F(T("cast_" + op, self.as_term(v)), w)
            raise NotEncoded(f"{op} of {v}")
        if op in ("fptosi", "fptoui"):
            return ("fptoi", v.t, int(dty[1:]))
        raise NotEncoded("cast " + op)

    def do_call(self, ins, env):
        m = re.match(r"call (?:(?:nnan|ninf|nsz|fast|reassoc|contract|afn|arcp) )*(.*?)(" + NAME + r")\((.*)\)[^()]*$", ins)
        if not m:
            raise NotEncoded("call syntax " + ins[:80])
        rty = m.group(1).strip()
        rty = re.sub(r"\b(noundef|nonnull|zeroext|signext|nofpclass\([^)]*\)|range\([^)]*\)|align \d+) ?", "", rty).strip()
        name = m.group(2)[1:].strip('"')
        args = []
        for a in split_top(m.group(3)):
            if not a:
                continue
            if a.startswith("metadata"):
                args.append(None)
                continue
            ty = type_prefix(a)
            rest = a[len(ty):]
            rest = re.sub(r"\b(noundef|nonnull|readonly|readnone|writeonly|noalias|nocapture|immarg|zeroext|signext|dead_on_unwind|writable|align \d+|dereferenceable\(\d+\)|captures\([^)]*\)|sret\([^)]*\)|byval\([^)]*\)|nofpclass\([^)]*\)|range\([^)]*\)|initializes\(\([^)]*\)\)) ?", "", rest).strip()
            args.append((ty, self.operand(ty, rest, env)))
        if name.startswith("llvm."):
            return self.intrinsic(name, rty, args)
        f = self.func(name)
        if f is not None:
            return self.call(f, [a[1] for a in args])
        if name in UF_EXTERNALS:
            uf, ar = UF_EXTERNALS[name]
            w = args[0][1].w
            if uf == "frem":
                return F(T("frem", args[0][1].t, args[1][1].t), w)
            return F(T("uf", uf, *[a[1].t for a in args[:ar]]), w)
        if name in ("sincosf", "sincos"):
            x, ps, pc = args[0][1], args[1][1], args[2][1]
            sz = x.w // 8
            self.store_lane(ps, F(T("uf", "sin", x.t), x.w), sz)
            self.store_lane(pc, F(T("uf", "cos", x.t), x.w), sz)
            return None
        raise NotEncoded("call to external " + name)

    def intrinsic(self, name, rty, args):
        base = name.split(".")
        n1 = base[1]
        if n1 in ("lifetime", "assume", "experimental", "dbg", "prefetch", "invariant"):
            return None
        vals = [a[1] if a else None for a in args]
        aty = args[0][0] if args and args[0] else None

        def lanewise(fn, *vs):
            if aty and vec_type(aty):
                n = vec_type(aty)[0]
                vs = [v if v is not POISON else [POISON] * n for v in vs]
                return [POISON if any(x is POISON for x in xs) else fn(*xs) for xs in zip(*vs)]
            return POISON if any(x is POISON for x in vs) else fn(*vs)
        un = {"fabs": "fabs", "sqrt": "sqrt", "floor": "floor", "ceil": "ceil", "trunc": "trunc", "round": "round", "rint": "rint", "nearbyint": "rint", "roundeven": "rint"}
        if n1 in un:
            return lanewise(lambda x: F(T(un[n1], x.t), x.w), vals[0])
        if n1 in ("sin", "cos", "exp", "log", "tan", "asin", "acos", "atan"):
            return lanewise(lambda x: F(T("uf", n1, x.t), x.w), vals[0])
        if n1 in ("pow", "atan2"):
            return lanewise(lambda x, y: F(T("uf", n1, x.t, y.t), x.w), vals[0], vals[1])
        if n1 == "is" and len(base) > 2 and base[2] == "fpclass":
            # llvm.is.fpclass(x, mask) read NaN-free like fcmp ord/uno above: the finite classes are sign/zero tests, the infinities comparisons with +-inf
            mask = vals[1].v
            PINF, NINF = T("inf", 1), T("inf", -1)

            def cls(x):
                parts = []
                if x.t[0] == "fdiv":
                    # class of a quotient a / b decided from the signs of a and b, so that b == 0 (quotient infinite or NaN) is a reachable case and not
                    # excluded by the division's domain condition; overflow/underflow of the quotient is not modelled (real reading)
                    a_, b_ = x.t[1], x.t[2]
                    gt, lt, eq = (lambda u: T("fcmp", "ogt", u, ZERO)), (lambda u: T("fcmp", "olt", u, ZERO)), (lambda u: T("fcmp", "oeq", u, ZERO))
                    AND, OR, NOT = (lambda p_, q_: T("and", p_, q_)), (lambda p_, q_: T("or", p_, q_)), (lambda p_: T("not", p_))
                    if ((mask >> 3) & 3) not in (0, 3) or ((mask >> 7) & 3) not in (0, 3) or ((mask >> 5) & 3) not in (0, 3) or (mask & 3) not in (0, 3) or bool(mask & 4) != bool(mask & 512):
                        raise NotEncoded(f"llvm.is.fpclass mask {mask} on a quotient")
                    if mask & 3:
                        parts.append(AND(eq(a_), eq(b_)))
                    if mask & 4:
                        parts.append(AND(NOT(eq(a_)), eq(b_)))
                    if (mask >> 3) & 3:
                        parts.append(OR(AND(gt(a_), lt(b_)), AND(lt(a_), gt(b_))))
                    if (mask >> 5) & 3:
                        parts.append(AND(eq(a_), NOT(eq(b_))))
                    if (mask >> 7) & 3:
                        parts.append(OR(AND(gt(a_), gt(b_)), AND(lt(a_), lt(b_))))
                    if not parts:
                        return I(0, 1)
                    c = parts[0]
                    for q in parts[1:]:
                        c = T("or", c, q)
                    return C(c)
                neg_fin, pos_fin, zero = (mask >> 3) & 3, (mask >> 7) & 3, (mask >> 5) & 3
                if neg_fin not in (0, 3) or pos_fin not in (0, 3) or zero not in (0, 3):
                    raise NotEncoded(f"llvm.is.fpclass mask {mask} separates normal/subnormal or the signs of zero")
                if mask & 4:
                    parts.append(T("fcmp", "oeq", x.t, NINF))
                if neg_fin:
                    parts.append(T("and", T("fcmp", "olt", x.t, ZERO), T("fcmp", "ogt", x.t, NINF)))
                if zero:
                    parts.append(T("fcmp", "oeq", x.t, ZERO))
                if pos_fin:
                    parts.append(T("and", T("fcmp", "ogt", x.t, ZERO), T("fcmp", "olt", x.t, PINF)))
                if mask & 512:
                    parts.append(T("fcmp", "oeq", x.t, PINF))
                if not parts:
                    return I(0, 1)
                c = parts[0]
                for q in parts[1:]:
                    c = T("or", c, q)
                return C(c)
            return lanewise(cls, vals[0])
        if n1 == "copysign":
            return lanewise(lambda x, y: F(T("copysign", x.t, y.t), x.w), vals[0], vals[1])
        if n1 in ("minnum", "maxnum", "minimum", "maximum"):
            k = "min" if n1.startswith("min") else "max"
            return lanewise(lambda x, y: F(T(k, x.t, y.t), x.w), vals[0], vals[1])
        if n1 == "fma":
            return lanewise(lambda x, y, z: F(T("fma", x.t, y.t, z.t), x.w), vals[0], vals[1], vals[2])
        if n1 == "fmuladd":
            if self.opaque:
                return lanewise(lambda x, y, z: F(T("fmuladd", x.t, y.t, z.t), x.w), vals[0], vals[1], vals[2])
            raise NotEncoded("llvm.fmuladd (contraction allowed)")
        if n1 == "memcpy" or n1 == "memmove":
            d, s, n = vals[0], vals[1], vals[2]
            if not isinstance(n, I):
                raise NotEncoded("memcpy with symbolic length")
            self.memcpy(d, s, n.v)
            return None
        if n1 == "memset":
            d, v, n = vals[0], vals[1], vals[2]
            if not (isinstance(n, I) and isinstance(v, I) and v.v == 0):
                raise NotEncoded("memset non-zero / symbolic")
            m = self.mem[d.obj]
            for o in list(m):
                if d.off <= o < d.off + n.v:
                    del m[o]
            self.zero.setdefault(d.obj, []).append((d.off, d.off + n.v))
            return None
        if n1 == "masked" and base[2] in ("load", "store"):
            # AVX2 builds use masked vector loads/stores with constant masks
            if base[2] == "load":
                p, mask, pas = (vals[0], vals[1], vals[2]) if len(vals) == 3 else (vals[0], vals[2], vals[3])
                vt = vec_type(rty)
                es = type_size(vt[1])
                pas = pas if pas is not POISON else [POISON] * vt[0]
                return [self.load(vt[1], P(p.obj, p.off + k * es)) if (isinstance(mask[k], I) and mask[k].v) else pas[k] for k in range(vt[0])]
            val, p, mask = (vals[0], vals[1], vals[2]) if len(vals) == 3 else (vals[0], vals[1], vals[3])
            vt = vec_type(args[0][0])
            es = type_size(vt[1])
            for k in range(vt[0]):
                if not isinstance(mask[k], I):
                    raise NotEncoded("masked store with symbolic mask")
                if mask[k].v:
                    self.store(vt[1], val[k], P(p.obj, p.off + k * es))
            return None
        if n1 == "is" and self.opaque:
            return lanewise(lambda x: C(T("fpclass", x.t, vals[1].v)), vals[0])
        if n1 == "x86":
            return self.x86(name, vals, aty)
        if n1 in ("abs", "smax", "smin", "umax", "umin", "ctpop", "ctlz", "cttz", "bswap", "fshl", "fshr", "usub", "uadd", "sadd", "ssub"):
            if all(isinstance(v, I) for v in vals if v is not None):
                a = vals[0]
                b = vals[1] if len(vals) > 1 else None
                r = {"abs": lambda: abs(a.s()), "smax": lambda: max(a.s(), b.s()), "smin": lambda: min(a.s(), b.s()), "umax": lambda: max(a.v, b.v), "umin": lambda: min(a.v, b.v)}.get(n1)
                if r:
                    return I(r(), a.bits)
        if n1 == "vector" and base[2] == "reduce":
            kind = base[3]
            v = vals[-1]
            if kind in ("fadd", "fmul"):
                acc = vals[0]
                for x in v:
                    acc = F(T(kind, acc.t, x.t), x.w)
                return acc
            if kind in ("or", "and") and all(isinstance(x, (C, I)) for x in v):
                acc = None
                for x in v:
                    c = x.c if isinstance(x, C) else (T("true") if x.v else T("false"))
                    acc = c if acc is None else T(kind, acc, c)
                return C(acc)
        raise NotEncoded("intrinsic " + name)

    def x86(self, name, vals, aty):
        def lw(fn, a, b):
            return [POISON if (x is POISON or y is POISON) else fn(x, y) for x, y in zip(a, b)]
        if name in ("llvm.x86.sse.min.ps", "llvm.x86.sse.max.ps"):
            # MINPS: a < b ? a : b   (second operand on unordered / equal)
            pred = "olt" if "min" in name else "ogt"
            return lw(lambda x, y: F(T("ite", T("fcmp", pred, x.t, y.t), x.t, y.t), 32), vals[0], vals[1])
        if name == "llvm.x86.sse.cmp.ps":
            imm = vals[2].v
            preds = {0: "oeq", 1: "olt", 2: "ole", 3: "uno", 4: "une", 5: "uge", 6: "ugt", 7: "ord"}
            p = preds[imm]
            if p == "uno":
                return [SI("mask", T("false"), 32)] * 4
            if p == "ord":
                return [SI("mask", T("true"), 32)] * 4
            return lw(lambda x, y: SI("mask", T("fcmp", p, x.t, y.t), 32), vals[0], vals[1])
        if name == "llvm.x86.sse.movmsk.ps":
            if self.opaque:
                return SI("bits", T("movmsk", *[self.as_term(x) for x in vals[0]]), 32)
            raise NotEncoded("movmskps on symbolic lanes")
        if name in ("llvm.x86.sse.sqrt.ps",):
            return [F(T("sqrt", x.t), 32) for x in vals[0]]
        if name == "llvm.x86.sse2.cvttps2dq":
            return [("fptoi", x.t, 32) for x in vals[0]]
        raise NotEncoded("x86 intrinsic " + name)

    def memcpy(self, d, s, n):
        sm = self.mem.get(s.obj)
        if sm is None or d.obj not in self.mem:
            raise NotEncoded("memcpy unknown object")
        if s.obj == "in":
            for o in range(0, n, self.in_elem):
                self.store_lane(P(d.obj, d.off + o), self.load_lane(P("in", s.off + o), self.in_elem, None), self.in_elem)
            return
        if s.obj in self.gbytes:
            es = self.in_elem
            for o in range(0, n, es):
                self.store_lane(P(d.obj, d.off + o), self.load_lane(P(s.obj, s.off + o), es, None), es)
            return
        dm = self.mem[d.obj]
        for o in list(dm):
            if d.off <= o < d.off + n:
                del dm[o]
        for (a, b) in self.zero.get(s.obj, []):
            lo, hi = max(a, s.off), min(b, s.off + n)
            if lo < hi:
                self.zero.setdefault(d.obj, []).append((d.off + lo - s.off, d.off + hi - s.off))
        for o, (v, sz) in list(sm.items()):
            if s.off <= o and o + sz <= s.off + n:
                self.store_lane(P(d.obj, d.off + (o - s.off)), v, sz)
            elif o < s.off + n and o + sz > s.off:
                raise NotEncoded("memcpy splits a lane")


def int_bits_to_float(v, w):
    if w == 32:
        return struct.unpack("<f", struct.pack("<I", v & 0xffffffff))[0]
    return struct.unpack("<d", struct.pack("<Q", v & 0xffffffffffffffff))[0]
