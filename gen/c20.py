"""C20: assertions never change results (differential: tree with glam-assert vs tree without); documented violations panic, valid calls do not."""
import re
from kb import Harness, CFGS as KCFGS
from types_ import VEC, MATS, FLOAT_VECS, LET, SCALARS, repo_read
import c18, c08

CFGS = {"quick": ["diff", "sse2a"], "thorough": ["diff", "diffs", "sse2a", "scalara"]}
BOUNDS = ("transparency: for every public method of the float vector, quaternion, matrix and affine types whose body contains glam_assert! (found by scanning the tree), a differential "
          "harness calls the build without assertions (/repo) and a copy of the same tree built with `glam-assert` on the same fully symbolic arguments: whenever the asserting "
          "build does not panic, both return bit-identical results (sqrt / transcendental shims uninterpreted in both). Precondition pairs on the asserting build: documented "
          "violations must panic (clamp with min > max, clamp_length with negative bound or min > max, non-unit axis / quaternion / normal beyond the 2e-4 tolerance, singular "
          "matrix inverse, non-affine last row), and calls that satisfy the assertion as written must not. NOT decided: that rounding keeps glam's own outputs inside the 2e-4 "
          "tolerances (chains of operations): over the reals the producers are exactly unit (C02/C04/C09/C12 obligations), the numeric margin is an error-analysis argument.")
ASSUMPTIONS = ["the asserting build is a copy of /repo's working tree made at check time (rsync) with the package version bumped so cargo accepts two glam packages",
               "uninterpreted sqrt / sin / cos / ... shared by both builds"]
UF = ("sqrt", "sin", "sin_cos", "tan", "atan2", "exp", "powf", "acos_approx", "mul_add", "div_euclid", "rem_euclid")

FLAT = r'''
pub trait Flat { fn flat(&self) -> [u64; 16]; }
macro_rules! flat_prim { ($($t:ty => |$x:ident| $e:expr),*) => { $(impl Flat for $t { #[inline(always)] fn flat(&self) -> [u64; 16] { let $x = *self; let mut a = [0u64; 16]; a[0] = $e; a } })* } }
flat_prim!(f32 => |x| x.to_bits() as u64, f64 => |x| x.to_bits(), bool => |x| x as u64, usize => |x| x as u64, u32 => |x| x as u64, () => |x| 0);
#[inline(always)] fn cat(parts: &[&[u64]]) -> [u64; 16] { let mut a = [0u64; 16]; let mut k = 0; let mut i = 0; while i < parts.len() { let p = parts[i]; let mut j = 0; while j < p.len() { if k < 16 { a[k] = p[j]; } k += 1; j += 1; } i += 1; } a }
macro_rules! flat_crate { ($g:ident) => {
    impl Flat for $g::Vec2 { fn flat(&self) -> [u64; 16] { cat(&[&[self.x.to_bits() as u64, self.y.to_bits() as u64]]) } }
    impl Flat for $g::Vec3 { fn flat(&self) -> [u64; 16] { cat(&[&[self.x.to_bits() as u64, self.y.to_bits() as u64, self.z.to_bits() as u64]]) } }
    impl Flat for $g::Vec3A { fn flat(&self) -> [u64; 16] { cat(&[&[self.x.to_bits() as u64, self.y.to_bits() as u64, self.z.to_bits() as u64]]) } }
    impl Flat for $g::Vec4 { fn flat(&self) -> [u64; 16] { cat(&[&[self.x.to_bits() as u64, self.y.to_bits() as u64, self.z.to_bits() as u64, self.w.to_bits() as u64]]) } }
    impl Flat for $g::Quat { fn flat(&self) -> [u64; 16] { cat(&[&[self.x.to_bits() as u64, self.y.to_bits() as u64, self.z.to_bits() as u64, self.w.to_bits() as u64]]) } }
    impl Flat for $g::DVec2 { fn flat(&self) -> [u64; 16] { cat(&[&[self.x.to_bits(), self.y.to_bits()]]) } }
    impl Flat for $g::DVec3 { fn flat(&self) -> [u64; 16] { cat(&[&[self.x.to_bits(), self.y.to_bits(), self.z.to_bits()]]) } }
    impl Flat for $g::DVec4 { fn flat(&self) -> [u64; 16] { cat(&[&[self.x.to_bits(), self.y.to_bits(), self.z.to_bits(), self.w.to_bits()]]) } }
    impl Flat for $g::DQuat { fn flat(&self) -> [u64; 16] { cat(&[&[self.x.to_bits(), self.y.to_bits(), self.z.to_bits(), self.w.to_bits()]]) } }
    impl Flat for $g::Mat2 { fn flat(&self) -> [u64; 16] { cat(&[&self.x_axis.flat()[..2], &self.y_axis.flat()[..2]]) } }
    impl Flat for $g::Mat3 { fn flat(&self) -> [u64; 16] { cat(&[&self.x_axis.flat()[..3], &self.y_axis.flat()[..3], &self.z_axis.flat()[..3]]) } }
    impl Flat for $g::Mat3A { fn flat(&self) -> [u64; 16] { cat(&[&self.x_axis.flat()[..3], &self.y_axis.flat()[..3], &self.z_axis.flat()[..3]]) } }
    impl Flat for $g::Mat4 { fn flat(&self) -> [u64; 16] { cat(&[&self.x_axis.flat()[..4], &self.y_axis.flat()[..4], &self.z_axis.flat()[..4], &self.w_axis.flat()[..4]]) } }
    impl Flat for $g::DMat2 { fn flat(&self) -> [u64; 16] { cat(&[&self.x_axis.flat()[..2], &self.y_axis.flat()[..2]]) } }
    impl Flat for $g::DMat3 { fn flat(&self) -> [u64; 16] { cat(&[&self.x_axis.flat()[..3], &self.y_axis.flat()[..3], &self.z_axis.flat()[..3]]) } }
    impl Flat for $g::DMat4 { fn flat(&self) -> [u64; 16] { cat(&[&self.x_axis.flat()[..4], &self.y_axis.flat()[..4], &self.z_axis.flat()[..4], &self.w_axis.flat()[..4]]) } }
    impl Flat for $g::Affine2 { fn flat(&self) -> [u64; 16] { cat(&[&self.matrix2.flat()[..4], &self.translation.flat()[..2]]) } }
    impl Flat for $g::Affine3A { fn flat(&self) -> [u64; 16] { cat(&[&self.matrix3.flat()[..9], &self.translation.flat()[..3]]) } }
    impl Flat for $g::DAffine2 { fn flat(&self) -> [u64; 16] { cat(&[&self.matrix2.flat()[..4], &self.translation.flat()[..2]]) } }
    impl Flat for $g::DAffine3 { fn flat(&self) -> [u64; 16] { cat(&[&self.matrix3.flat()[..9], &self.translation.flat()[..3]]) } }
    impl Flat for $g::BVec2 { fn flat(&self) -> [u64; 16] { cat(&[&[self.bitmask() as u64]]) } }
    impl Flat for $g::BVec3 { fn flat(&self) -> [u64; 16] { cat(&[&[self.bitmask() as u64]]) } }
    impl Flat for $g::BVec4 { fn flat(&self) -> [u64; 16] { cat(&[&[self.bitmask() as u64]]) } }
} }
flat_crate!(glam); flat_crate!(glam_a);
#[cfg(not(feature_scalar))] impl Flat for glam::BVec3A { fn flat(&self) -> [u64; 16] { cat(&[&[self.bitmask() as u64]]) } }
#[cfg(not(feature_scalar))] impl Flat for glam_a::BVec3A { fn flat(&self) -> [u64; 16] { cat(&[&[self.bitmask() as u64]]) } }
#[cfg(not(feature_scalar))] impl Flat for glam::BVec4A { fn flat(&self) -> [u64; 16] { cat(&[&[self.bitmask() as u64]]) } }
#[cfg(not(feature_scalar))] impl Flat for glam_a::BVec4A { fn flat(&self) -> [u64; 16] { cat(&[&[self.bitmask() as u64]]) } }
impl<T: Flat> Flat for Option<T> { fn flat(&self) -> [u64; 16] { match self { Some(v) => { let f = v.flat(); cat(&[&[1], &f[..15]]) } None => [0; 16] } } }
impl<A: Flat, B: Flat> Flat for (A, B) { fn flat(&self) -> [u64; 16] { cat(&[&self.0.flat()[..8], &self.1.flat()[..8]]) } }
impl<A: Flat, B: Flat, C: Flat> Flat for (A, B, C) { fn flat(&self) -> [u64; 16] { cat(&[&self.0.flat()[..5], &self.1.flat()[..5], &self.2.flat()[..5]]) } }
pub fn same16(a: &[u64; 16], b: &[u64; 16]) -> bool { let mut ok = true; let mut i = 0; while i < 16 { ok = ok && a[i] == b[i]; i += 1; } ok }
'''


def prelude(cfg):
    if cfg in ("diff",):
        return FLAT.replace("#[cfg(not(feature_scalar))] ", "")
    if cfg == "diffs":
        return "\n".join(l for l in FLAT.splitlines() if "feature_scalar" not in l)
    return ""


# differential harnesses whose two-tree formula does not finish within the caps on cvc5, z3 or the SAT reachability run (not claimed in either tier; listed under `skipped`)
HEAVY = set("vec3_any_orthonormal_vector vec3_any_orthonormal_pair vec3a_any_orthonormal_vector vec3a_any_orthonormal_pair dvec3_any_orthonormal_vector dvec3_any_orthonormal_pair "
            "quat_rotate_towards quat_slerp dquat_look_to_rh dquat_rotate_towards dquat_lerp mat3_to_euler mat3a_to_euler mat4_to_scale_rotation_translation mat4_to_euler dmat3_to_euler "
            "dmat4_to_scale_rotation_translation dmat4_to_euler affine3a_to_scale_rotation_translation daffine3_to_scale_rotation_translation quat_look_to_rh quat_lerp dquat_slerp".split())


# differential harnesses that take more than ~100 s of their 200 s quick cap on an idle machine (one of them timed out in one of three full quick runs): thorough tier only, cap 600 s
SLOW = set("dmat3_look_to_rh dvec4_refract dquat_from_rotation_arc daffine2_to_scale_angle_translation dvec3_refract".split())


class DDrawer:
    """builds crate-agnostic value expressions from shared scalar draws"""
    def __init__(self, selfname, sse):
        self.selfname, self.sse, self.draws, self.n = selfname, sse, [], 0

    def sc(self, ty):
        self.n += 1
        v = f"d{self.n}"
        self.draws.append(f"let {v} = s.{ty}();")
        return v

    def value(self, ty):
        ty = ty.strip()
        if ty.startswith("crate::"):
            ty = ty[7:]
        if ty == "Self":
            ty = self.selfname
        if ty.startswith("&mut "):
            return None
        if ty.startswith("&"):
            v = self.value(ty[1:])
            return None if v is None else f"&{v}"
        if ty in SCALARS or ty == "bool":
            return self.sc(ty)
        if ty in VEC:
            t = VEC[ty]
            ls = [self.sc(t.scalar) for _ in range(t.dim)]
            return f"{ty}::new({', '.join(ls)})"
        if ty in MATS:
            m = MATS[ty]
            cols = [self.value(m.colvec.name) for _ in range(m.cols)]
            return f"{ty}::from_cols({', '.join(cols)})"
        if ty in ("Quat", "DQuat"):
            sc = "f32" if ty == "Quat" else "f64"
            return f"{ty}::from_xyzw({', '.join(self.sc(sc) for _ in range(4))})"
        if ty == "EulerRot":
            k = self.sc("u8")
            arms = " ".join(f"{i} => EulerRot::{n}," for i, n in enumerate(c18.EULER)) + " ".join(f"{i + 12} => EulerRot::{n}Ex," for i, n in enumerate(c18.EULER))
            return f"(match {k} % 24 {{ {arms} _ => EulerRot::XYZ }})"
        if ty == "BVec4A" and self.selfname == "Vec4" and not self.sse:
            ty = "BVec4"
        m = re.fullmatch(r"BVec(\d)A?", ty)
        if m:
            return f"{ty}::new({', '.join(self.sc('bool') for _ in range(int(m.group(1))))})"
        return None


def has_assert(src, T, name):
    m = re.search(rf"^impl {T} \{{", src, re.M)
    if not m:
        return False
    body = src[m.end():]
    mm = re.search(rf"pub (?:const )?fn {name}\b[^{{]*\{{", body)
    if not mm:
        return False
    i, depth = mm.end(), 1
    while depth and i < len(body):
        depth += {"{": 1, "}": -1}.get(body[i], 0)
        i += 1
    return "glam_assert!" in body[mm.end():i]


def harnesses(tier, cfg):
    if cfg in ("diff", "diffs"):
        return diff_harnesses(tier, cfg)
    return pre_harnesses(tier, cfg)


def diff_harnesses(tier, cfg):
    sse = KCFGS[cfg]["sse"]
    hs, skipped = [], []
    types = [(t.name, c18.vec_file(t, sse)) for t in FLOAT_VECS] + [(q.name, q.file(sse)) for q in c18.QUATS.values()] + [(m.name, m.file(sse)) for m in MATS.values()]
    stubs = []
    from kb import UF_STUBS
    for u in UF:
        stubs += [(a.replace("glam::", "glam_a::", 1), "support::" + b) for a, b in UF_STUBS[u]]
    for T, f in types:
        src = repo_read(f)
        for name, gen, params, ret in c18.methods_of(T, src):
            if gen or name in c18.DOCUMENTED or not has_assert(src, T, name):
                continue
            ret = (ret or "()").strip()
            if not c08.SUPPORTED_RET.match(ret) or ret.startswith("["):
                skipped.append(f"{T}::{name} -> {ret}")
                continue
            d = DDrawer(T, sse)
            ps = c18.split_params(params)
            args, recv, ok = [], None, True
            for p in ps:
                if p in ("self", "mut self", "&self"):
                    recv = d.value(T)
                    continue
                if p == "&mut self":
                    ok = False
                    break
                v = d.value(p.partition(":")[2])
                if v is None:
                    ok = False
                    break
                args.append(v)
            if not ok:
                skipped.append(f"{T}::{name}({params})")
                continue
            call = f"({recv}).{name}({', '.join(args)})" if recv else f"{T}::{name}({', '.join(args)})"
            body = "\n".join(d.draws + [f"let r0 = Flat::flat(&({call}));", f"let r1 = {{ use glam_a::*; Flat::flat(&({call})) }};",
                                        f'va!("{T}::{name}: assertions do not change the result", same16(&r0, &r1));'])
            h = Harness(f"c20_{T.lower()}_{name}", body, backend="smt", uf=UF, extra_stubs=stubs, unwind=20,
                        desc=f"{T}::{name}: whenever the glam-assert build does not panic it returns bit-identical results to the build without assertions, all arguments", site=f"{T}::{name}", funcs=[f"{T}::{name}"], cap=200)
            h.ignore_panics = True
            if f"{T.lower()}_{name}" in HEAVY:
                skipped.append(f"{T}::{name}: two-tree formula exceeds the caps of cvc5, z3 and the SAT reachability run (not claimed)")
                continue
            if f"{T.lower()}_{name}" in SLOW:
                if tier == "quick":
                    skipped.append(f"{T}::{name}: decided in the thorough tier only (more than 100 s)")
                    continue
                h.cap = 600
            hs.append(h)
    harnesses.skipped = skipped
    return hs


def pre_harnesses(tier, cfg):
    """documented violations panic / valid calls do not, on the asserting build"""
    hs = []

    def pair(name, draws, ok_cond, call, site, desc, bad_cond=None):
        hs.append(Harness(f"c20_{name}_ok", "\n".join(draws + [f"if {ok_cond} {{ let r = {call}; }}"]), backend="smt", uf=UF, desc=desc + " - no panic when the documented precondition holds", site=site, cap=200))
        hs.append(Harness(f"c20_{name}_violation", "\n".join(draws + [f"vassume!({bad_cond});" if bad_cond else f"vassume!(!({ok_cond}));", 'vcover!("PRE");', f"let r = {call};"]), backend="smt", uf=UF, expect="panic",
                          desc=desc + " - panics when it is violated", site=site, cap=200))
    for t in FLOAT_VECS:
        T, N, sc = t.name, t.dim, t.scalar
        v = lambda n: [f"let {n} = {T}::new({', '.join(f's.{sc}()' for _ in range(N))});"]
        le = " && ".join(f"lo.{LET[i]} <= hi.{LET[i]}" for i in range(N))
        pair(f"{t.lname}_clamp", v("a") + v("lo") + v("hi"), le, "a.clamp(lo, hi)", f"{T}::clamp", f"{T}::clamp(min, max) requires min <= max in every lane")
        pair(f"{t.lname}_clamp_length", v("a") + [f"let lo = s.{sc}(); let hi = s.{sc}();"], "0.0 <= lo && lo <= hi", "a.clamp_length(lo, hi)", f"{T}::clamp_length", f"{T}::clamp_length requires 0 <= min <= max")
        pair(f"{t.lname}_clamp_length_max", v("a") + [f"let hi = s.{sc}();"], "0.0 <= hi", "a.clamp_length_max(hi)", f"{T}::clamp_length_max", f"{T}::clamp_length_max requires 0 <= max")
        pair(f"{t.lname}_clamp_length_min", v("a") + [f"let lo = s.{sc}();"], "0.0 <= lo", "a.clamp_length_min(lo)", f"{T}::clamp_length_min", f"{T}::clamp_length_min requires 0 <= min")
        tol = "2e-4"
        unit = lambda n: f"({n}.length_squared() - 1.0).abs() <= {tol}"
        pair(f"{t.lname}_reflect", v("a") + v("nrm"), unit("nrm"), "a.reflect(nrm)", f"{T}::reflect", f"{T}::reflect requires a normalized normal (|len^2 - 1| <= 2e-4)")
        pair(f"{t.lname}_project_onto_normalized", v("a") + v("b"), unit("b"), "a.project_onto_normalized(b)", f"{T}::project_onto_normalized", f"{T}::project_onto_normalized requires a normalized rhs")
    for Q, sc, V3 in (("Quat", "f32", "Vec3"), ("DQuat", "f64", "DVec3")):
        q = lambda n: [f"let {n} = {Q}::from_xyzw(s.{sc}(), s.{sc}(), s.{sc}(), s.{sc}());"]
        v3 = lambda n: [f"let {n} = {V3}::new(s.{sc}(), s.{sc}(), s.{sc}());"]
        unitq = lambda n: f"({n}.length_squared() - 1.0).abs() <= 2e-4"
        pair(f"{Q.lower()}_from_axis_angle", v3("ax") + [f"let an = s.{sc}();"], unitq("ax"), f"{Q}::from_axis_angle(ax, an)", f"{Q}::from_axis_angle", f"{Q}::from_axis_angle requires a normalized axis")
        pair(f"{Q.lower()}_mul_vec3", q("a") + v3("v"), unitq("a"), "a.mul_vec3(v)", f"{Q}::mul_vec3", f"{Q} * vector requires a normalized quaternion")
        pair(f"{Q.lower()}_inverse", q("a"), unitq("a"), "a.inverse()", f"{Q}::inverse", f"{Q}::inverse requires a normalized quaternion")
    for M, sc in (("Mat2", "f32"), ("Mat3", "f32"), ("Mat3A", "f32"), ("DMat3", "f64")):      # (Mat4: the two queries exceed the cap)
        m = MATS[M]
        cols = ", ".join(f"{m.colvec.name}::new({', '.join(f's.{sc}()' for _ in range(m.rows))})" for _ in range(m.cols))
        pair(f"{m.lname}_inverse", [f"let a = {M}::from_cols({cols});"], "{ let d = a.determinant(); d.is_finite() && d != 0.0 && (1.0 / d).is_finite() }", "a.inverse()", f"{M}::inverse", f"{M}::inverse: no panic for a finite non-zero determinant with finite reciprocal; panics for a zero determinant",
             bad_cond="a.determinant() == 0.0")
    cols4 = ", ".join("Vec4::new(s.f32(), s.f32(), s.f32(), s.f32())" for _ in range(4))
    pair("mat4_transform_point3", [f"let a = Mat4::from_cols({cols4}); let p = Vec3::new(s.f32(), s.f32(), s.f32());"], "a.row(3).abs_diff_eq(Vec4::W, 1e-6)", "a.transform_point3(p)", "Mat4::transform_point3",
         "Mat4::transform_point3 requires an affine last row (0,0,0,1) within 1e-6")
    return hs
