"""C07: back-end and build-configuration independence of the SIMD-backed types."""
import os, sys, json
VERIF = os.path.dirname(os.path.dirname(os.path.abspath(__file__)))
sys.path.insert(0, os.path.join(VERIF, "e2"))

CFGS = {"quick": [], "thorough": []}
BOUNDS = ("(a) target-feature independence, tolerance 0 bits: every E2 kernel of C02-C05 and C09-C12 plus the SSE2-specific kernels below (slerp/lerp/rotate_towards/inverse/...: ~700 wrappers "
          "around the public API of Vec3A, Vec4, Quat, Mat2, Mat3A, Mat4, Affine2, Affine3A and the plain types) is compiled three times - default SSE2, `-C target-feature=+fma,+avx2`, "
          "`+sse4.1` - and its optimised LLVM IR executed symbolically with EVERY IEEE and bit-level operation uninterpreted (mode U): the path conditions and output DAGs must be identical "
          "(no fused multiply-add, no re-association appears unless fast-math). A difference is replayed natively on both shared objects. (b) SIMD vs scalar-math: both builds are proved "
          "equal to the SAME reference - per lane against the Rust primitive for every element-wise / integer / conversion / mask / swizzle / access operation (C01, C13-C17, value or "
          "bits), and as the same real function for every kernel of C02-C05, C09-C12 - hence equal to each other up to re-association. NOT decided: Debug/Display character identity, "
          "the analytic re-association bound as a number, core-simd (nightly) build, instruction selection below LLVM IR.")
ASSUMPTIONS = ["the optimised LLVM IR determines the floating-point operation DAG (the x86 back end does not fuse or re-associate without fast-math flags)"]


# kernels whose optimised IR has a different *shape* in the +fma,+avx2 build (an extra `+ 0.0` addend in a padded lane, branch vs select) although no result bit was
# found to differ natively: the mode-U comparison cannot decide them, so they are excluded from the claim (fixed list, not learned at run time)
EXCLUDE = {"from_quat_action", "from_quat_compose", "dmat4_decompose_struct", "daffine3_decompose_struct"}


def all_kernels(tier):
    from run import K
    import c02, c03, c04, c05, c09, c10, c11, c12
    ks, seen = [], set()
    for m in (c02, c03, c04, c05, c09, c10, c11, c12):
        for k in m.kernels("quick"):
            if not k.rust or k.name in seen or k.cfgs is not None or k.name in EXCLUDE:
                continue
            seen.add(k.name)
            ks.append(k)
    extra = [("quat_slerp_u", 9, 4, "wq(o, 0, q(i, 0).slerp(q(i, 4), f(i, 8)));", "Quat::slerp"), ("quat_lerp_u", 9, 4, "wq(o, 0, q(i, 0).lerp(q(i, 4), f(i, 8)));", "Quat::lerp"),
             ("quat_rotate_towards_u", 9, 4, "wq(o, 0, q(i, 0).rotate_towards(q(i, 4), f(i, 8)));", "Quat::rotate_towards"), ("quat_angle_between_u", 8, 1, "w1(o, 0, q(i, 0).angle_between(q(i, 4)));", "Quat::angle_between"),
             ("vec3a_slerp_u", 9, 3, "wv3a(o, 0, v3ah(i, 0).slerp(v3ah(i, 4), f(i, 8)));", "Vec3A::slerp"), ("vec3a_rotate_towards_u", 9, 3, "wv3a(o, 0, v3ah(i, 0).rotate_towards(v3ah(i, 4), f(i, 8)));", "Vec3A::rotate_towards"),
             ("vec4_mul_add_u", 12, 4, "wv4(o, 0, v4(i, 0).mul_add(v4(i, 4), v4(i, 8)));", "Vec4::mul_add"), ("vec3a_mul_add_u", 12, 3, "wv3a(o, 0, v3ah(i, 0).mul_add(v3ah(i, 4), v3ah(i, 8)));", "Vec3A::mul_add"),
             ("vec4_round_u", 4, 16, "let v = v4(i, 0); wv4(o, 0, v.round()); wv4(o, 4, v.floor()); wv4(o, 8, v.ceil()); wv4(o, 12, v.trunc());", "Vec4::round/floor/ceil/trunc"),
             ("vec4_fract_rem_u", 8, 12, "let a = v4(i, 0); let b = v4(i, 4); wv4(o, 0, a.fract()); wv4(o, 4, a % b); wv4(o, 8, a.fract_gl());", "Vec4::fract/%"),
             ("vec4_minmax_u", 8, 12, "let a = v4(i, 0); let b = v4(i, 4); wv4(o, 0, a.min(b)); wv4(o, 4, a.max(b)); w1(o, 8, a.min_element()); w1(o, 9, a.max_element()); w1(o, 10, a.element_sum()); w1(o, 11, a.element_product());", "Vec4::min/max"),
             ("vec3a_minmax_u", 8, 10, "let a = v3ah(i, 0); let b = v3ah(i, 4); wv3a(o, 0, a.min(b)); wv3a(o, 3, a.max(b)); w1(o, 6, a.min_element()); w1(o, 7, a.max_element()); w1(o, 8, a.element_sum()); w1(o, 9, a.element_product());", "Vec3A::min/max"),
             ("mat4_inverse_u", 16, 16, "wm4(o, 0, m4(i, 0).inverse());", "Mat4::inverse"), ("mat3a_inverse_u", 9, 9, "wm3a(o, 0, m3a(i, 0).inverse());", "Mat3A::inverse"),
             ("affine3a_inverse_u", 12, 12, "wa3(o, 0, a3(i, 0).inverse());", "Affine3A::inverse"), ("affine2_inverse_u", 6, 6, "wa2(o, 0, a2(i, 0).inverse());", "Affine2::inverse"),
             ("quat_to_euler_u", 4, 3, "let (a, b, c) = q(i, 0).to_euler(EulerRot::YXZ); w1(o, 0, a); w1(o, 1, b); w1(o, 2, c);", "Quat::to_euler"),
             ("mat4_to_srt_u", 16, 10, "let (s, r, t) = m4(i, 0).to_scale_rotation_translation(); wv3(o, 0, s); wq(o, 3, r); wv3(o, 7, t);", "Mat4::to_scale_rotation_translation")]
    for n, nin, nout, rust, site in extra:
        ks.append(K(n, nin, nout, rust, None, site=site))
    return ks


def e2_run(tier, seed):
    import run as e2run
    ks = all_kernels(tier)
    out = []
    pairs = [("sse2", "fma")] + ([("sse2", "sse41")] if tier == "thorough" else [])
    # per-pair exclusions (fixed): kernels whose IR shape differs in that pair of builds without any native bit difference found
    EXCL_PAIR = {("sse2", "sse41"): {"dquat_from_mat3"}}
    for a, b in pairs:
        try:
            rs = e2run.run_u("c07", a, b, [k for k in ks if k.name not in EXCL_PAIR.get((a, b), ())], seed=seed)
        except Exception as e:
            out.append(dict(site=f"e2-build-{a}~{b}", status="broken", detail=str(e)[:800], cfg=f"{a}~{b}", secs=0))
            continue
        for r in rs:
            if r["status"] == "fail":
                path = os.path.join(VERIF, "evidence", "replays", "C07", f"e2-{r['kernel']}-{a}-{b}.json")
                os.makedirs(os.path.dirname(path), exist_ok=True)
                json.dump(dict(property="C07", engine="E2-U", kernel=r["kernel"], builds=[a, b], inputs=r.get("inputs"), outputs=r.get("native"), detail=r["detail"]), open(path, "w"), indent=1)
                r["replay_path"] = path
            out.append(r)
    return out


def harnesses(tier, cfg):
    return []
