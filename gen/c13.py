"""C13: integer vectors are the exact lane-wise lift of the Rust integer primitives (values, None-ness, panics)."""
import re
from kb import Harness
from types_ import VEC, LET, INT_VECS, SCALARS, draw_vec, draw_scalar, repo_read, vt

CFGS = {"quick": ["sse2"], "thorough": ["sse2"]}   # integer vector types are plain structs in every configuration
QUICK_SCALARS = ["i8", "u16", "i32", "u64"]
BOUNDS = ("all lane values of every operand are unconstrained; overflow-checking (dev) profile as modelled by Kani; Sum/Product over exactly 3 elements "
          "(unwind 5); chebyshev_distance's fixed-size iterator unwound 5; usize = 64 bit; shifts by every scalar count type (i8..u64) and by IVec/UVec on every type in every tier; quick tier: i8, u16, i32, u64 families in 2,3,4 dimensions, thorough: all 27 types")
ASSUMPTIONS = ["release-profile (wrapping) overflow behaviour is not modelled: Kani forces overflow checks on whatever -C overflow-checks says (a release-like configuration was tried: every "
               "wrapping harness failed on Kani's own 'attempt to add with overflow' check), so the release profile is only exercised by native replays",
               "CBMC SMT2 overflow-struct operand-order patch (DESIGN.md appendix B), checked by the concrete self-test harnesses of this property"]

SHIFT_SCALARS = ["i8", "i16", "i32", "i64", "u8", "u16", "u32", "u64"]


def src_of(t):
    return repo_read(f"src/{t.scalar}/{t.lname}.rs")


def harnesses(tier, cfg):
    hs = selftests()
    for t in INT_VECS:
        hs += for_type(t, tier, full=(tier == "thorough" or t.scalar in QUICK_SCALARS))
    return hs


def selftests():
    """concrete facts that must be unsat on the SMT route, and deliberately false twins that must be sat"""
    hs = []
    facts = [("mul_i32", "let a = s.i32(); let b = s.i32(); vassume!(a == -1 && b == -1);", "a.checked_mul(b) == Some(1)"),
             ("mul_i64", "let a = s.i64(); let b = s.i64(); vassume!(a == -3 && b == 5);", "a * b == -15"),
             ("add_u8", "let a = s.u8(); let b = s.u8(); vassume!(a == 200 && b == 100);", "a.checked_add(b).is_none() && a.wrapping_add(b) == 44"),
             ("sub_i16", "let a = s.i16(); let b = s.i16(); vassume!(a == -32768 && b == 1);", "a.checked_sub(b).is_none() && a.saturating_sub(b) == -32768"),
             ("div_i32", "let a = s.i32(); let b = s.i32(); vassume!(a == -7 && b == 2);", "a / b == -3 && a % b == -1 && a.div_euclid(b) == -4 && a.rem_euclid(b) == 1"),
             ("mulu64", "let a = s.u64(); let b = s.u64(); vassume!(a == 1 << 33 && b == 1 << 31);", "a.checked_mul(b).is_none() && a.wrapping_mul(b) == 0 && a.saturating_mul(b) == u64::MAX")]
    for n, pre, fact in facts:
        hs.append(Harness(f"c13_selftest_{n}", f'{pre}\nva!("selftest {n}", {fact});', backend="smt", desc=f"back-end agreement self-test (true fact): {fact}", site="selftest"))
        h = Harness(f"c13_selftest_{n}_neg", f'{pre}\nva!("selftest-neg {n}", !({fact}));', backend="smt", desc=f"back-end agreement self-test (false twin must be refuted)", site="selftest")
        h.expect_fail = True
        hs.append(h)
    return hs


def for_type(t, tier, full=True):
    T, sc, N = t.name, t.scalar, t.dim
    src = src_of(t)
    methods = set(re.findall(r"pub (?:const )?fn (\w+)", src))
    impls = set(re.findall(r"^impl (\w+<[^>]*>|\w+) for " + T + r" \{", src, re.M))
    bits, signed = t.bits, t.signed
    heavy = "smt"
    hs = []

    def H(op, draws, lines, backend="sat", expect="pass", unwind=None, desc=None, ignore_panics=False):
        code = []
        for d in draws:
            kind, var = d[0], d[1]
            if kind == "v":
                code.append(draw_vec(t, var)[0])
            elif kind == "vo":   # vector of another type
                code.append(draw_vec(d[2], var)[0])
            else:
                code.append(draw_scalar(d[2] if len(d) > 2 else sc, var))
        h = Harness(f"c13_{t.lname}_{op}", "\n".join(code + lines), backend=backend, expect=expect, unwind=unwind,
                    desc=desc or f"{T}::{op} == lane-wise primitive", funcs=[f"{T}::{op}"], site=f"{T}::{op.split('__')[0]}")
        h.ignore_panics = ignore_panics
        hs.append(h)

    def lanes_eq(tag, rexpr, ref):
        return [f"let r = {rexpr};"] + [f'va!("{tag}[{i}]", r.{LET[i]} == {ref(i)});' for i in range(N)]

    AB = [("v", "a"), ("v", "b")]
    AK = [("v", "a"), ("s", "k")]
    # ---- panicking operators: + - * / %
    for opn, sym, chk in (("add", "+", "checked_add"), ("sub", "-", "checked_sub"), ("mul", "*", "checked_mul"),
                          ("div", "/", "checked_div"), ("rem", "%", "checked_rem")):
        be = heavy if opn in ("mul", "div", "rem") else "sat"
        forms = [("vv", AB, f"a {sym} b", lambda i: (f"a{i}", f"b{i}")),
                 ("vs", AK, f"a {sym} k", lambda i: (f"a{i}", "k")),
                 ("sv", AK, f"k {sym} a", lambda i: ("k", f"a{i}")),
                 ("assign_v", AB, f"{{ let mut r = a; r {sym}= b; r }}", lambda i: (f"a{i}", f"b{i}")),
                 ("assign_s", AK, f"{{ let mut r = a; r {sym}= k; r }}", lambda i: (f"a{i}", "k"))]
        if tier == "thorough":
            forms += [("rr", AB, f"&a {sym} &b", lambda i: (f"a{i}", f"b{i}")), ("vr", AB, f"a {sym} &b", lambda i: (f"a{i}", f"b{i}")),
                      ("rv", AB, f"&a {sym} b", lambda i: (f"a{i}", f"b{i}")), ("rs", AK, f"&a {sym} k", lambda i: (f"a{i}", "k")),
                      ("vsr", AK, f"a {sym} &k", lambda i: (f"a{i}", "k")), ("svr", AK, f"k {sym} &a", lambda i: ("k", f"a{i}")),
                      ("assign_vr", AB, f"{{ let mut r = a; r {sym}= &b; r }}", lambda i: (f"a{i}", f"b{i}")),
                      ("assign_sr", AK, f"{{ let mut r = a; r {sym}= &k; r }}", lambda i: (f"a{i}", "k"))]
        if not full:
            forms = forms[:2]
        for nm, draws, ex, ops in forms:
            ok = " && ".join(f"{ops(i)[0]}.{chk}({ops(i)[1]}).is_some()" for i in range(N))
            lines = [f"if {ok} {{"] + lanes_eq(f"{T} {sym} ({nm})", ex, lambda i: f"{ops(i)[0]}.{chk}({ops(i)[1]}).unwrap()") + ["}"]
            H(f"{opn}__{nm}", draws, lines, be, desc=f"{T} {sym} ({nm}): when no lane's primitive would panic, no panic and every lane == primitive")
            lines = [f"vassume!(!({ok}));", 'vcover!("PRE");', f"let r = {ex};"]
            H(f"{opn}__{nm}_panic", draws, lines, be, expect="panic", desc=f"{T} {sym} ({nm}): when some lane's primitive would panic (overflow / zero divisor), the operation panics")
    if signed:
        ok = " && ".join(f"a{i}.checked_neg().is_some()" for i in range(N))
        H("neg", [("v", "a")], [f"if {ok} {{"] + lanes_eq(f"-{T}", "-a", lambda i: f"-a{i}") + ["}"])
        H("neg_panic", [("v", "a")], [f"vassume!(!({ok}));", 'vcover!("PRE");', "let r = -a;"], expect="panic")
    # ---- bit operations
    H("not", [("v", "a")], lanes_eq(f"!{T}", "!a", lambda i: f"!a{i}"))
    for opn, sym in (("bitand", "&"), ("bitor", "|"), ("bitxor", "^")):
        H(f"{opn}__vv", AB, lanes_eq(f"{T} {sym} {T}", f"a {sym} b", lambda i: f"a{i} {sym} b{i}"))
        H(f"{opn}__vs", AK, lanes_eq(f"{T} {sym} {sc}", f"a {sym} k", lambda i: f"a{i} {sym} k"))
    # ---- shifts by scalar of every integer type and by IVec/UVec
    for opn, sym in (("shl", "<<"), ("shr", ">>")):
        for ks in SHIFT_SCALARS:      # every count type in every tier (seed C13_r2m2: a wide count type routed through a narrowing cast)
            ok = f"(k as i128) >= 0 && (k as i128) < {bits}"
            H(f"{opn}__{ks}", [("v", "a"), ("s", "k", ks)], [f"if {ok} {{"] + lanes_eq(f"{T} {sym} {ks}", f"a {sym} k", lambda i: f"a{i} {sym} k") + ["}"],
              desc=f"{T} {sym} {ks}: for counts in range, lanes == primitive shift")
            H(f"{opn}__{ks}_panic", [("v", "a"), ("s", "k", ks)], [f"vassume!(!({ok}));", 'vcover!("PRE");', f"let r = a {sym} k;"], expect="panic",
              desc=f"{T} {sym} {ks}: counts < 0 or >= {bits} panic like the primitive (overflow-checking profile)")
        for vs_ in ("i32", "u32"):
            ot = vt(vs_, N)
            ok = " && ".join(f"(c{i} as i128) >= 0 && (c{i} as i128) < {bits}" for i in range(N))
            H(f"{opn}__{ot.lname}", [("v", "a"), ("vo", "c", ot)], [f"if {ok} {{"] + lanes_eq(f"{T} {sym} {ot.name}", f"a {sym} c", lambda i: f"a{i} {sym} c{i}") + ["}"])
            H(f"{opn}__{ot.lname}_panic", [("v", "a"), ("vo", "c", ot)], [f"vassume!(!({ok}));", 'vcover!("PRE");', f"let r = a {sym} c;"], expect="panic")
    # ---- min max clamp abs signum
    H("min", AB, lanes_eq(f"{T}::min", "a.min(b)", lambda i: f"a{i}.min(b{i})"))
    H("max", AB, lanes_eq(f"{T}::max", "a.max(b)", lambda i: f"a{i}.max(b{i})"))
    okc = " && ".join(f"b{i} <= c{i}" for i in range(N))
    H("clamp", AB + [("v", "c")], [f"if {okc} {{"] + lanes_eq(f"{T}::clamp", "a.clamp(b, c)", lambda i: f"a{i}.clamp(b{i}, c{i})") + ["}"])
    if "abs" in methods:
        ok = " && ".join(f"a{i}.checked_abs().is_some()" for i in range(N))
        H("abs", [("v", "a")], [f"if {ok} {{"] + lanes_eq(f"{T}::abs", "a.abs()", lambda i: f"a{i}.abs()") + ["}"])
        H("abs_panic", [("v", "a")], [f"vassume!(!({ok}));", 'vcover!("PRE");', "let r = a.abs();"], expect="panic")
    if "signum" in methods:
        H("signum", [("v", "a")], lanes_eq(f"{T}::signum", "a.signum()", lambda i: f"a{i}.signum()"))
    if "is_negative_bitmask" in methods:
        H("is_negative_bitmask", [("v", "a")], [f'va!("{T}::is_negative_bitmask", a.is_negative_bitmask() == ({" | ".join(f"(((a{i} < 0) as u32) << {i})" for i in range(N))}));'])
    # ---- horizontal min/max + positions
    fold = lambda f: "a0" + "".join(f".{f}(a{i})" for i in range(1, N))
    first = lambda v: "".join(f"if a{i} == {v} {{ {i} }} else " for i in range(N - 1)) + f"{{ {N-1} }}"
    H("hminmax", [("v", "a")], [f'va!("{T}::min_element", a.min_element() == {fold("min")});', f'va!("{T}::max_element", a.max_element() == {fold("max")});',
                                f"let mn = {fold('min')}; let mx = {fold('max')};",
                                f'va!("{T}::min_position", a.min_position() == ({first("mn")}));', f'va!("{T}::max_position", a.max_position() == ({first("mx")}));'])
    # ---- reductions: the reference is the straight-line `overflowing_*` evaluation of the definition in the code's association
    #      (no control flow between steps, so the solver sees the same terms as in glam's code):
    #      no step overflows  =>  no panic and result == value ;   some step overflows  =>  the call panics (overflow-checking profile)
    class SL:
        """tiny straight-line builder: returns variable names, accumulates `let` statements and overflow flags"""
        def __init__(self):
            self.st, self.fl, self.n = [], [], 0
        def op(self, op, x, y):
            self.n += 1
            v, f = f"t{self.n}", f"o{self.n}"
            self.st.append(f"let ({v}, {f}) = {x}.overflowing_{op}({y});")
            self.fl.append(f)
            return v
        def fold(self, op, terms):
            e = terms[0]
            for x in terms[1:]:
                e = self.op(op, e, x)
            return e
        def code(self):
            return " ".join(self.st) + " let ovf = " + (" || ".join(self.fl) if self.fl else "false") + ";"

    def reduction(name, call, draws, sl, value_cmp, be=heavy):
        H(f"{name}", draws, [sl.code(), f'if !ovf {{ let r = {call}; va!("{T}::{name}", {value_cmp}); }}'], be,
          desc=f"{T}::{name}: whenever no primitive step of its definition (code's association) overflows: no panic and result == the primitive evaluation")
        H(f"{name}_panic", draws, [sl.code(), "vassume!(ovf);", 'vcover!("PRE");', f"let r = {call};"], be, expect="panic",
          desc=f"{T}::{name}: panics whenever a primitive step of its definition would overflow (overflow-checking profile)")

    sl = SL(); v = sl.fold("add", [sl.op("mul", f"a{i}", f"b{i}") for i in range(N)])
    reduction("dot", "a.dot(b)", AB, sl, f"r == {v}")
    sl = SL(); v = sl.fold("add", [sl.op("mul", f"a{i}", f"a{i}") for i in range(N)])
    reduction("length_squared", "a.length_squared()", [("v", "a")], sl, f"r == {v}")
    if "distance_squared" in methods:
        sl = SL(); ds = [sl.op("sub", f"a{i}", f"b{i}") for i in range(N)]; v = sl.fold("add", [sl.op("mul", d, d) for d in ds])
        reduction("distance_squared", "a.distance_squared(b)", AB, sl, f"r == {v}")
    sl = SL(); v = sl.fold("add", [f"a{i}" for i in range(N)])
    reduction("element_sum", "a.element_sum()", [("v", "a")], sl, f"r == {v}", be="sat")
    sl = SL(); v = sl.fold("mul", [f"a{i}" for i in range(N)])
    reduction("element_product", "a.element_product()", [("v", "a")], sl, f"r == {v}")
    if "dot_into_vec" in methods:
        sl = SL(); v = sl.fold("add", [sl.op("mul", f"a{i}", f"b{i}") for i in range(N)])
        reduction("dot_into_vec", "a.dot_into_vec(b)", AB, sl, " && ".join(f"r.{LET[i]} == {v}" for i in range(N)))
    if "cross" in methods and N == 3:
        sl = SL()
        w = lambda x, y, u, v: sl.op("sub", sl.op("mul", x, y), sl.op("mul", u, v))
        cx, cy, cz = w("a1", "b2", "b1", "a2"), w("a2", "b0", "b2", "a0"), w("a0", "b1", "b0", "a1")
        reduction("cross", "a.cross(b)", AB, sl, f"r.x == {cx} && r.y == {cy} && r.z == {cz}")
    # ---- distances
    ut = {"i8": "u8", "i16": "u16", "i32": "u32", "i64": "u64", "u8": "u8", "u16": "u16", "u32": "u32", "u64": "u64", "usize": "usize"}[sc]
    if "manhattan_distance" in methods:
        ad = [f"a{i}.abs_diff(b{i})" for i in range(N)]
        chk = ad[0]
        for x in ad[1:]:
            chk = f"({chk}).checked_add({x})" if chk == ad[0] else f"{chk}.and_then(|v| v.checked_add({x}))"
        H("manhattan_distance", AB, [f"let e: Option<{ut}> = {chk};", f'if let Some(v) = e {{ va!("{T}::manhattan_distance", a.manhattan_distance(b) == v); }}'])
        H("manhattan_distance_panic", AB, [f"let e: Option<{ut}> = {chk};", "vassume!(e.is_none());", 'vcover!("PRE");', "let r = a.manhattan_distance(b);"], expect="panic")
        if "checked_manhattan_distance" in methods:
            H("checked_manhattan_distance", AB, [f"let e: Option<{ut}> = {chk};", f'va!("{T}::checked_manhattan_distance", a.checked_manhattan_distance(b) == e);'])
    if "chebyshev_distance" in methods:
        mx = "a0.abs_diff(b0)" + "".join(f".max(a{i}.abs_diff(b{i}))" for i in range(1, N))
        H("chebyshev_distance", AB, [f'va!("{T}::chebyshev_distance", a.chebyshev_distance(b) == {mx});'], unwind=6)
    # ---- euclid
    for m in ("div_euclid", "rem_euclid"):
        if m in methods:
            ok = " && ".join(f"a{i}.checked_{m}(b{i}).is_some()" for i in range(N))
            H(m, AB, [f"if {ok} {{"] + lanes_eq(f"{T}::{m}", f"a.{m}(b)", lambda i: f"a{i}.{m}(b{i})") + ["}"], heavy)
            H(f"{m}_panic", AB, [f"vassume!(!({ok}));", 'vcover!("PRE");', f"let r = a.{m}(b);"], heavy, expect="panic")
    # ---- checked / wrapping / saturating families
    for fam in ("add", "sub", "mul", "div"):
        be = heavy if fam in ("mul", "div") else "sat"
        m = f"checked_{fam}"
        if m in methods:
            allsome = " && ".join(f"a{i}.{m}(b{i}).is_some()" for i in range(N))
            H(m, AB, [f"let r = a.{m}(b);", f'va!("{T}::{m}.is_some", r.is_some() == ({allsome}));', "if let Some(r) = r {"] +
              [f'va!("{T}::{m}[{i}]", Some(r.{LET[i]}) == a{i}.{m}(b{i}));' for i in range(N)] + ["}"], be,
              desc=f"{T}::{m}: None exactly when some lane's primitive is None, else lane-wise equal")
        for pre in ("wrapping", "saturating"):
            m = f"{pre}_{fam}"
            if m in methods:
                if fam == "div":
                    ok = " && ".join(f"b{i} != 0" for i in range(N))
                    H(m, AB, [f"if {ok} {{"] + lanes_eq(f"{T}::{m}", f"a.{m}(b)", lambda i: f"a{i}.{m}(b{i})") + ["}"], be)
                    H(f"{m}_panic", AB, [f"vassume!(!({ok}));", 'vcover!("PRE");', f"let r = a.{m}(b);"], be, expect="panic")
                else:
                    H(m, AB, lanes_eq(f"{T}::{m}", f"a.{m}(b)", lambda i: f"a{i}.{m}(b{i})"), be)
    # mixed signedness
    other = {"i8": "u8", "i16": "u16", "i32": "u32", "i64": "u64", "u8": "i8", "u16": "i16", "u32": "i32", "u64": "i64"}.get(sc)
    if other:
        ot = vt(other, N)
        AO = [("v", "a"), ("vo", "b", ot)]
        for m in sorted(methods):
            mm = re.fullmatch(r"(checked|wrapping|saturating)_(add|sub)_(unsigned|signed)", m)
            if not mm:
                continue
            if mm.group(1) == "checked":
                allsome = " && ".join(f"a{i}.{m}(b{i}).is_some()" for i in range(N))
                H(m, AO, [f"let r = a.{m}(b);", f'va!("{T}::{m}.is_some", r.is_some() == ({allsome}));', "if let Some(r) = r {"] +
                  [f'va!("{T}::{m}[{i}]", Some(r.{LET[i]}) == a{i}.{m}(b{i}));' for i in range(N)] + ["}"])
            else:
                H(m, AO, lanes_eq(f"{T}::{m}", f"a.{m}(b)", lambda i: f"a{i}.{m}(b{i})"))
    # ---- Sum / Product over 3 elements: left folds from ZERO / ONE
    ABC = [("v", "a"), ("v", "b"), ("v", "c")]
    for opn, fam, be in (("add", "sum", "sat"), ("mul", "product", heavy)):
        sl = SL(); vs_ = [sl.fold(opn, [f"a{i}", f"b{i}", f"c{i}"]) for i in range(N)]
        cmpv = " && ".join(f"r.{LET[i]} == {vs_[i]}" for i in range(N))
        for nm, it in ((fam, f"arr.iter().copied().{fam}::<{T}>()"), (fam + "_ref", f"arr.iter().{fam}::<{T}>()")):
            H(nm, ABC, [sl.code(), f'if !ovf {{ let arr = [a, b, c]; let r = {it}; va!("{T} {nm}", {cmpv}); }}'], be, unwind=5,
              desc=f"{nm} over 3 x {T}: left fold of the primitive per lane when no step overflows")
            H(nm + "_panic", ABC, [sl.code(), "vassume!(ovf);", 'vcover!("PRE");', f"let arr = [a, b, c]; let r = {it};"], be, expect="panic", unwind=5)
    return hs
