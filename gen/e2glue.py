"""glue between ./check and the E2 engine"""
import json, os, sys
VERIF = os.path.dirname(os.path.dirname(os.path.abspath(__file__)))
sys.path.insert(0, os.path.join(VERIF, "e2"))


def e2_run(prop, kernels, tier, seed, cfgs=("sse2", "scalar"), cap=None):
    import run as e2run
    cap = cap or (60 if tier == "quick" else 600)
    out = []
    if os.environ.get("VERIF_E2_ONLY"):      # development aid: restrict to kernels whose name matches
        import re
        kernels = [k for k in kernels if re.search(os.environ["VERIF_E2_ONLY"], k.name)]
    for cfg in cfgs:
        try:
            rs = e2run.run(prop.lower(), cfg, kernels, seed=seed, cap=cap)
            # z3's nlsat is sensitive to machine load: kernels that came back `unknown` are re-decided with 4 workers and a 4x cap before being reported inconclusive
            redo = [r["kernel"] for r in rs if r["status"] == "inconclusive" and "z3 unknown" in r.get("detail", "")]
            if redo:
                import copy
                ks2 = []
                for k in kernels:
                    if k.name in redo:
                        k2 = copy.copy(k)
                        k2.timeout = min((k.timeout or cap) * 4, 300)
                        ks2.append(k2)
                rs2 = {r["kernel"]: r for r in e2run.run(prop.lower(), cfg, ks2, seed=seed, cap=min(cap * 4, 300), jobs=4)}
                rs = [rs2.get(r["kernel"], r) if r["kernel"] in redo else r for r in rs]
        except Exception as e:
            out.append(dict(site=f"e2-build-{cfg}", status="broken", detail=str(e)[:800], cfg=cfg, secs=0))
            continue
        for r in rs:
            r["site"] = r["site"]
            if r["status"] == "fail":
                path = os.path.join(VERIF, "evidence", "replays", prop, f"e2-{r['kernel']}-{cfg}.json")
                os.makedirs(os.path.dirname(path), exist_ok=True)
                json.dump(dict(property=prop, engine="E2", kernel=r["kernel"], cfg=cfg, site=r["site"], inputs=r.get("inputs"), native_outputs=r.get("native"),
                               obligation=r.get("label"), detail=r["detail"]), open(path, "w"), indent=1)
                r["replay_path"] = path
                if not r.get("reproduced"):
                    r["status"] = "inconclusive"
                    r["detail"] = "counterexample did not reproduce against the native code: " + r["detail"]
            out.append(r)
    return out
