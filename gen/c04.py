"""C04: quaternion algebra - Hamilton product, conjugate, rotation of vectors (E2 mode R on the compiled kernels)."""
import os, sys
VERIF = os.path.dirname(os.path.dirname(os.path.abspath(__file__)))
sys.path.insert(0, os.path.join(VERIF, "e2"))
from e2glue import e2_run as _e2
from kb import Harness

CFGS = {"quick": ["sse2"], "thorough": ["sse2", "scalar"]}
BOUNDS = ("E2-R on the optimised IR of the SSE2 and scalar-math builds, Quat and DQuat: Hamilton product (4 polynomial identities, exact on the integer lattice reported), conjugate, "
          "+ - scalar* scalar/ dot length_squared, normalize (with r = sqrt(len^2) as a constrained symbol), q*v for Vec3 and Vec3A == vector part of q (v,0) conj(q) for EVERY q, "
          "and its consequences |q*v|^2 = |q|^4 |v|^2, (q*p)*v = q*(p*v), conj(q)*(q*v) = |q|^4 v, (-q)*v = q*v, inverse(q)*(q*v) = v at |q| = 1; rounding outside the claim. "
          "E1: mul_vec3 == mul_vec3a bit for bit on all inputs; q + e, q - e, q * s, q / s, -q equal the IEEE primitive on each stored lane for all inputs (rounding included), conjugate bit for bit "
          "(Quat and DQuat, SSE2; scalar-math too in the thorough tier).")
ASSUMPTIONS = ["IEEE operations read as exact real operations (mode R)"]


def kernels(tier):
    import ref as R
    from run import K
    ks = []
    for Q, rd, wr, v3, wv3, elem, extra in (("Quat", "q", "wq", "v3", "wv3", 4, [("v3a", "wv3a", "Vec3A")]), ("DQuat", "dq", "wdq", "dv3", "wdv3", 8, [])):
        _mk(ks, Q, rd, wr, v3, wv3, elem, extra)
    return ks


def _mk(ks, Q, rd, wr, v3, wv3, elem, extra):
    import ref as R
    from run import K
    w1 = "w1" if elem == 4 else "wd"
    f1 = "f" if elem == 4 else "d"
    ql = Q.lower()
    n2 = lambda q: R.dot(q, q)
    ks.append(K(f"{ql}_mul", 8, 4, f"{wr}(o, 0, {rd}(i, 0) * {rd}(i, 4));", lambda x, o, h: R.eq_all(h, o, R.quat_mul(x[0:4], x[4:8]), f"{Q}*{Q}"), elem=elem, site=f"{Q}::mul_quat",
                desc=f"{Q} * {Q} == Hamilton product of the stored (x,y,z,w)", tags=("poly",)))
    ks.append(K(f"{ql}_mul_quat", 8, 4, f"{wr}(o, 0, {rd}(i, 0).mul_quat({rd}(i, 4)));", lambda x, o, h: R.eq_all(h, o, R.quat_mul(x[0:4], x[4:8]), f"{Q}::mul_quat"), elem=elem, site=f"{Q}::mul_quat", tags=("poly",)))
    ks.append(K(f"{ql}_mul_assign", 8, 4, f"let mut a = {rd}(i, 0); a *= {rd}(i, 4); {wr}(o, 0, a);", lambda x, o, h: R.eq_all(h, o, R.quat_mul(x[0:4], x[4:8]), f"{Q}*={Q}"), elem=elem, site=f"{Q}::mul_quat", tags=("poly",)))
    ks.append(K(f"{ql}_conjugate", 4, 4, f"{wr}(o, 0, {rd}(i, 0).conjugate());", lambda x, o, h: R.eq_all(h, o, R.quat_conj(x[0:4]), f"{Q}::conjugate"), elem=elem, site=f"{Q}::conjugate", tags=("poly",)))
    ks.append(K(f"{ql}_add_sub", 8, 8, f"{wr}(o, 0, {rd}(i, 0) + {rd}(i, 4)); {wr}(o, 4, {rd}(i, 0) - {rd}(i, 4));",
                lambda x, o, h: R.eq_all(h, o, R.add(x[0:4], x[4:8]) + R.sub(x[0:4], x[4:8]), f"{Q}+-{Q}"), elem=elem, site=f"{Q}::add_sub", tags=("poly",)))
    ks.append(K(f"{ql}_scale", 5, 4, f"{wr}(o, 0, {rd}(i, 0) * {f1}(i, 4));", lambda x, o, h: R.eq_all(h, o, R.scale(x[0:4], x[4]), f"{Q}*s"), elem=elem, site=f"{Q}::mul_scalar", tags=("poly",)))
    ks.append(K(f"{ql}_div", 5, 4, f"{wr}(o, 0, {rd}(i, 0) / {f1}(i, 4));", lambda x, o, h: [(f"{Q}/s[{j}]", h.eq(o[j] * x[4], x[j])) for j in range(4)], hyps=lambda x, h: [x[4] != 0], elem=elem, site=f"{Q}::div_scalar"))
    ks.append(K(f"{ql}_neg", 4, 4, f"{wr}(o, 0, -{rd}(i, 0));", lambda x, o, h: R.eq_all(h, o, [-e for e in x[0:4]], f"-{Q}"), elem=elem, site=f"{Q}::neg", tags=("poly",)))
    ks.append(K(f"{ql}_dot_len2", 8, 2, f"{w1}(o, 0, {rd}(i, 0).dot({rd}(i, 4))); {w1}(o, 1, {rd}(i, 0).length_squared());",
                lambda x, o, h: [(f"{Q}::dot", h.eq(o[0], R.dot(x[0:4], x[4:8]))), (f"{Q}::length_squared", h.eq(o[1], n2(x[0:4])))], elem=elem, site=f"{Q}::dot", tags=("poly",)))
    ks.append(K(f"{ql}_length", 4, 2, f"{w1}(o, 0, {rd}(i, 0).length()); {w1}(o, 1, {rd}(i, 0).length_recip());",
                lambda x, o, h: [(f"{Q}::length", h.eq(o[0], h.sqrt(n2(x[0:4])))), (f"{Q}::length_recip", h.eq(o[1] * h.sqrt(n2(x[0:4])), 1))],
                hyps=lambda x, h: [n2(x[0:4]) > 0], elem=elem, site=f"{Q}::length"))
    ks.append(K(f"{ql}_normalize", 4, 4, f"{wr}(o, 0, {rd}(i, 0).normalize());",
                lambda x, o, h: [(f"{Q}::normalize parallel ({a},{b})", h.eq(o[a] * x[b], o[b] * x[a])) for a in range(4) for b in range(a + 1, 4)] + [(f"{Q}::normalize has unit length", h.eq(n2(o), 1))],
                hyps=lambda x, h: [n2(x[0:4]) > 0], elem=elem, site=f"{Q}::normalize", desc=f"{Q}::normalize(q) is parallel to q and has unit length for every non-zero q (also for q already near unit length)"))
    for vrd, vwr, V in [(v3, wv3, "Vec3" if elem == 4 else "DVec3")] + extra:
        vl = V.lower()
        rot = lambda x: R.quat_rotate_raw(x[0:4], x[4:7])
        ks.append(K(f"{ql}_mul_{vl}", 7, 3, f"{vwr}(o, 0, {rd}(i, 0) * {vrd}(i, 4));", lambda x, o, h: R.eq_all(h, o, rot(x), f"{Q}*{V} == vec(q (v,0) conj q)"), elem=elem,
                    site=f"{Q}::mul_{vl}", desc=f"{Q} * {V} == vector part of q (v,0) conj(q) for every q (rotation by q at |q| = 1)", tags=("poly",)))
        ks.append(K(f"{ql}_mul_{vl}_len", 7, 3, f"{vwr}(o, 0, {rd}(i, 0) * {vrd}(i, 4));", lambda x, o, h: [(f"|q*v|^2 == |q|^4 |v|^2", h.eq(R.dot(o, o), n2(x[0:4]) * n2(x[0:4]) * R.dot(x[4:7], x[4:7])))],
                    elem=elem, site=f"{Q}::mul_{vl}", desc="rotation preserves length (|q*v|^2 = |q|^4 |v|^2)"))
        ks.append(K(f"{ql}_mul_{vl}_assoc", 11, 6, f"let a = {rd}(i, 0); let b = {rd}(i, 4); let v = {vrd}(i, 8); {vwr}(o, 0, (a * b) * v); {vwr}(o, 3, a * (b * v));",
                    lambda x, o, h: [(f"(q*p)*v == q*(p*v) [{j}]", h.eq(o[j], o[3 + j])) for j in range(3)], elem=elem, site=f"{Q}::mul_{vl}", desc="(q*p)*v == q*(p*v)", timeout=300))
        ks.append(K(f"{ql}_mul_{vl}_undo", 7, 6, f"let a = {rd}(i, 0); let v = {vrd}(i, 4); {vwr}(o, 0, a.conjugate() * (a * v)); {vwr}(o, 3, (-a) * v);",
                    lambda x, o, h: [(f"conj(q)*(q*v) == |q|^4 v [{j}]", h.eq(o[j], n2(x[0:4]) * n2(x[0:4]) * x[4 + j])) for j in range(3)] +
                                    [(f"(-q)*v == q*v [{j}]", h.eq(o[3 + j], rot(x)[j])) for j in range(3)], elem=elem, site=f"{Q}::mul_{vl}", desc="rotation is undone by the conjugate; q and -q rotate alike"))
        ks.append(K(f"{ql}_inverse_{vl}", 7, 3, f"let a = {rd}(i, 0); let v = {vrd}(i, 4); {vwr}(o, 0, a.inverse() * (a * v));",
                    lambda x, o, h: [(f"inverse(q)*(q*v) == v [{j}]", h.eq(o[j], x[4 + j])) for j in range(3)], hyps=lambda x, h: [n2(x[0:4]) == 1], elem=elem, site=f"{Q}::inverse", desc="q.inverse() undoes q at |q| = 1"))
    ks.append(K(f"{ql}_mul_vec3_method", 7, 3, f"{wv3}(o, 0, {rd}(i, 0).mul_vec3({v3}(i, 4)));", lambda x, o, h: R.eq_all(h, o, R.quat_rotate_raw(x[0:4], x[4:7]), f"{Q}::mul_vec3"), elem=elem, site=f"{Q}::mul_vec3", tags=("poly",)))


def e2_run(tier, seed):
    return _e2("C04", kernels(tier), tier, seed, cfgs=("sse2", "scalar"))


def harnesses(tier, cfg):
    body = """let q = Quat::from_xyzw(s.f32(), s.f32(), s.f32(), s.f32()); let v = Vec3::new(s.f32(), s.f32(), s.f32());
let a = q.mul_vec3(v); let b = Vec3::from(q.mul_vec3a(Vec3A::from(v))); let c = q * v; let d = Vec3::from(q * Vec3A::from(v));
va!("mul_vec3 == mul_vec3a x", a.x.same(b.x) && c.x.same(a.x) && d.x.same(a.x));
va!("mul_vec3 == mul_vec3a y", a.y.same(b.y) && c.y.same(a.y) && d.y.same(a.y));
va!("mul_vec3 == mul_vec3a z", a.z.same(b.z) && c.z.same(a.z) && d.z.same(a.z));"""
    hs = []
    if tier == "thorough":
        for Q, sc in (("Quat", "f32"), ("DQuat", "f64")):
            lanes = [f"p{i}" for i in range(8)]
            draw = " ".join(f"let {l} = s.{sc}();" for l in lanes)
            rng = " && ".join(f"({l} == -1.0 || {l} == 0.0 || {l} == 1.0)" for l in lanes)
            i = [f"({l} as i32)" for l in lanes]
            x1, y1, z1, w1, x2, y2, z2, w2 = i
            want = [f"{w1} * {x2} + {x1} * {w2} + {y1} * {z2} - {z1} * {y2}", f"{w1} * {y2} - {x1} * {z2} + {y1} * {w2} + {z1} * {x2}",
                    f"{w1} * {z2} + {x1} * {y2} - {y1} * {x2} + {z1} * {w2}", f"{w1} * {w2} - {x1} * {x2} - {y1} * {y2} - {z1} * {z2}"]
            b = [draw, f"vassume!({rng});", f"let r = {Q}::from_xyzw(p0, p1, p2, p3) * {Q}::from_xyzw(p4, p5, p6, p7);"] + \
                [f'va!("{Q}*{Q} exact on the lattice [{k}]", r.{"xyzw"[k]} == (({want[k]}) as {sc}));' for k in range(4)]
            hs.append(Harness(f"c04_{Q.lower()}_mul_lattice", "\n".join(b), backend="sat", desc=f"{Q} * {Q} is the exact integer Hamilton product for ALL 3^8 operand pairs with components in {{-1,0,1}} (bit-precise)", site=f"{Q}::mul_quat", cap=900))
    # component-wise clause, bit level (every backend form of the operator): q + e, q - e, q * s, q / s, -q and conjugate are the primitive operation on each stored lane
    # (the E2-R kernels above read IEEE operations as reals, where x * (1/s) and x / s coincide; these harnesses decide the rounding too)
    for Q, sc in (("Quat", "f32"), ("DQuat", "f64")):
        draw = f"let q = {Q}::from_xyzw(s.{sc}(), s.{sc}(), s.{sc}(), s.{sc}()); let e = {Q}::from_xyzw(s.{sc}(), s.{sc}(), s.{sc}(), s.{sc}()); let t = s.{sc}();"
        for nm, expr, lane in (("add", "q + e", "q.{l} + e.{l}"), ("sub", "q - e", "q.{l} - e.{l}"), ("mul_scalar", "q * t", "q.{l} * t"), ("div_scalar", "q / t", "q.{l} / t"),
                               ("neg", "-q", "-q.{l}")):
            b = [draw, f"let r = {expr};"] + [f'va!("({expr}).{l} == {lane.format(l=l)}", r.{l}.same({lane.format(l=l)}));' for l in "xyzw"]
            hs.append(Harness(f"c04_{Q.lower()}_{nm}_lanes", "\n".join(b), backend="smt", desc=f"{Q}: `{expr}` is the IEEE primitive on each of the four stored lanes, for all inputs (value equality, NaN ~ NaN)",
                              site=f"{Q}::{nm}", cap=120))
        b = [draw, "let r = q.conjugate();"] + [f'va!("conjugate.{l}", r.{l}.bits({"-" if l != "w" else ""}q.{l}));' for l in "xyzw"]
        hs.append(Harness(f"c04_{Q.lower()}_conjugate_bits", "\n".join(b), backend="smt", desc=f"{Q}::conjugate flips exactly the sign bit of x, y, z and keeps w, bit for bit", site=f"{Q}::conjugate", cap=60))
    return hs + [Harness("c04_quat_mul_vec3_vs_vec3a", body, backend="smt", desc="Quat::mul_vec3(v) == Vec3::from(Quat::mul_vec3a(v.into())) for all inputs (value equality), operator forms alike", site="Quat::mul_vec3")]
