"""C09: rotation constructors and all 24 Euler orders follow the documented conventions (E2 mode R)."""
import os, sys
VERIF = os.path.dirname(os.path.dirname(os.path.abspath(__file__)))
sys.path.insert(0, os.path.join(VERIF, "e2"))
from e2glue import e2_run as _e2
from c05 import z3and, z3or

CFGS = {"quick": [], "thorough": []}
BOUNDS = ("E2-R on the optimised IR (SSE2 and scalar-math builds): sin/cos are uninterpreted symbols S(t), C(t) with S^2 + C^2 = 1 (and the double-angle identities where a "
          "half-angle quaternion form is related to a full-angle matrix form). from_rotation_x/y/z, from_angle (2D), from_axis_angle == Rodrigues (orthonormal, det +1 under |axis| = 1), "
          "quaternion forms map to the same matrix; from_scaled_axis == from_axis_angle(v/|v|, |v|); for each of the 24 EulerRot variants (concrete discriminant) from_euler == product of "
          "the three elementary rotations in the order the variant names (Ex variants reversed) for Mat3, Mat3A, Mat4, DMat3, DMat4, Quat, DQuat. The extraction direction (to_euler, "
          "to_axis_angle, to_scaled_axis rebuild the rotation; error growth near gimbal lock) is NOT decided: it needs inverse-trigonometric identities and error analysis; only "
          "'never panics' is decided for those (C18).")
ASSUMPTIONS = ["sin/cos as uninterpreted functions constrained by the Pythagorean identity (and double-angle identities where stated)", "IEEE operations read as exact real operations"]
ORDERS = ["ZYX", "ZXY", "YXZ", "YZX", "XYZ", "XZY", "ZYZ", "ZXZ", "YXY", "YZY", "XYX", "XZX"]


def half_id(h, t):
    """double-angle identities tying S(t), C(t) to S(t/2), C(t/2)"""
    s, c, sh, ch = h.sin(t), h.cos(t), h.sin(t * h.real(0.5)), h.cos(t * h.real(0.5))
    return [s == 2 * sh * ch, c == ch * ch - sh * sh]


def kernels(tier):
    import ref as R
    from run import K
    ks = []
    rot = {"x": R.rot_x, "y": R.rot_y, "z": R.rot_z}
    n2 = lambda q: R.dot(q, q)
    # ---- elementary rotations
    mats = [("Mat3", "wm3", 4, 3), ("Mat3A", "wm3a", 4, 3), ("DMat3", "wdm3", 8, 3), ("Mat4", "wm4", 4, 4), ("DMat4", "wdm4", 8, 4), ("Affine3A", "wa3", 4, 34), ("DAffine3", "wda3", 8, 34)]

    def shape_flat(m3, shape):
        if shape == 3:
            return R.flat(m3)
        if shape == 4:
            return R.flat(R.embed4(m3))
        return R.flat(m3) + [0, 0, 0]
    for T, wr, elem, shape in mats:
        rd = "f" if elem == 4 else "d"
        for ax in "xyz":
            ks.append(K(f"{T.lower()}_from_rotation_{ax}", 1, len(shape_flat(R.identity(3), shape)), f"{wr}(o, 0, {T}::from_rotation_{ax}({rd}(i, 0)));",
                        (lambda ax, shape, T: lambda x, o, h: R.eq_all(h, o, shape_flat(rot[ax](h.sin(x[0]), h.cos(x[0])), shape), f"{T}::from_rotation_{ax}"))(ax, shape, T),
                        elem=elem, site=f"{T}::from_rotation_{ax}", desc=f"{T}::from_rotation_{ax}(t) is the standard right-handed elementary rotation in S(t), C(t)"))
    for Q, wr, elem in (("Quat", "wq", 4), ("DQuat", "wdq", 8)):
        rd = "f" if elem == 4 else "d"
        M3, wm = ("Mat3", "wm3") if elem == 4 else ("DMat3", "wdm3")
        for k, ax in enumerate("xyz"):
            def ob(x, o, h, k=k, ax=ax, Q=Q):
                sh, ch = h.sin(x[0] * h.real(0.5)), h.cos(x[0] * h.real(0.5))
                want = [0, 0, 0, ch]
                want[k] = sh
                obs = R.eq_all(h, o[0:4], want, f"{Q}::from_rotation_{ax}")
                obs += R.eq_all(h, o[4:13], R.flat(rot[ax](h.sin(x[0]), h.cos(x[0]))), f"from_quat({Q}::from_rotation_{ax}) == {ax}-rotation matrix")
                return obs
            ks.append(K(f"{Q.lower()}_from_rotation_{ax}", 1, 13, f"let r = {Q}::from_rotation_{ax}({rd}(i, 0)); {wr}(o, 0, r); {wm}(o, 4, {M3}::from_quat(r));", ob,
                        hyps=lambda x, h: half_id(h, x[0]), elem=elem, site=f"{Q}::from_rotation_{ax}", desc=f"{Q}::from_rotation_{ax}(t) = (sin t/2 on {ax}, cos t/2) and maps to the same matrix as the matrix form"))
    # ---- 2D
    for T, wr, elem, n in (("Mat2", "wm2", 4, 4), ("DMat2", "wdm2", 8, 4), ("Affine2", "wa2", 4, 6), ("DAffine2", "wda2", 8, 6), ("Mat3", "wm3", 4, 9), ("DMat3", "wdm3", 8, 9)):
        rd = "f" if elem == 4 else "d"
        def ob2(x, o, h, n=n, T=T):
            s, c = h.sin(x[0]), h.cos(x[0])
            want = {4: [c, s, -s, c], 6: [c, s, -s, c, 0, 0], 9: [c, s, 0, -s, c, 0, 0, 0, 1]}[n]
            return R.eq_all(h, o, want, f"{T}::from_angle")
        ks.append(K(f"{T.lower()}_from_angle", 1, n, f"{wr}(o, 0, {T}::from_angle({rd}(i, 0)));", ob2, elem=elem, site=f"{T}::from_angle", desc=f"{T}::from_angle(t) is the counter-clockwise 2D rotation"))
    # ---- axis-angle
    for T, wr, elem, shape in mats:
        rd, v3 = ("f", "v3") if elem == 4 else ("d", "dv3")
        def oba(x, o, h, shape=shape, T=T):
            m = R.rodrigues(x[0:3], h.sin(x[3]), h.cos(x[3]))
            obs = R.eq_all(h, o, shape_flat(m, shape), f"{T}::from_axis_angle == Rodrigues")
            return obs
        ks.append(K(f"{T.lower()}_from_axis_angle", 4, len(shape_flat(R.identity(3), shape)), f"{wr}(o, 0, {T}::from_axis_angle({v3}(i, 0), {rd}(i, 3)));", oba,
                    hyps=lambda x, h: [n2(x[0:3]) == 1], elem=elem, site=f"{T}::from_axis_angle", desc=f"{T}::from_axis_angle(a, t) == Rodrigues formula (|a| = 1)"))
    def ob_orth(x, o, h):
        # lemma on the reference itself (no kernel output involved): the Rodrigues matrix of a unit axis with s^2 + c^2 = 1 is a proper rotation.
        # Together with "from_axis_angle == Rodrigues" (above) this gives: from_axis_angle is orthonormal with determinant +1.
        m = R.rodrigues(x[0:3], x[3], x[4])
        obs = []
        for a in range(3):
            for b in range(a, 3):
                obs.append((f"Rodrigues columns {a},{b} orthonormal", h.eq(R.dot(m[a], m[b]), 1 if a == b else 0)))
        obs.append(("det Rodrigues == +1", h.eq(R.det(m), 1)))
        return obs
    ks.append(K("rodrigues_rigid_lemma", 5, 0, "", ob_orth, hyps=lambda x, h: [n2(x[0:3]) == 1, x[3] * x[3] + x[4] * x[4] == 1], site="from_axis_angle rigid",
                desc="the Rodrigues matrix (== from_axis_angle, proved per type) has orthonormal columns and determinant +1 when |a| = 1 and s^2 + c^2 = 1", timeout=300))
    for Q, wr, elem in (("Quat", "wq", 4), ("DQuat", "wdq", 8)):
        rd, v3 = ("f", "v3") if elem == 4 else ("d", "dv3")
        M3, wm = ("Mat3", "wm3") if elem == 4 else ("DMat3", "wdm3")
        def obq(x, o, h, Q=Q):
            sh, ch = h.sin(x[3] * h.real(0.5)), h.cos(x[3] * h.real(0.5))
            obs = R.eq_all(h, o[0:4], [x[0] * sh, x[1] * sh, x[2] * sh, ch], f"{Q}::from_axis_angle")
            obs.append((f"{Q}::from_axis_angle is unit", h.eq(n2(o[0:4]), 1)))
            obs += R.eq_all(h, o[4:13], R.flat(R.rodrigues(x[0:3], h.sin(x[3]), h.cos(x[3]))), f"from_quat({Q}::from_axis_angle) == Rodrigues")
            return obs
        ks.append(K(f"{Q.lower()}_from_axis_angle", 4, 13, f"let r = {Q}::from_axis_angle({v3}(i, 0), {rd}(i, 3)); {wr}(o, 0, r); {wm}(o, 4, {M3}::from_quat(r));", obq,
                    hyps=lambda x, h: [n2(x[0:3]) == 1] + half_id(h, x[3]), elem=elem, site=f"{Q}::from_axis_angle", desc=f"{Q}::from_axis_angle(a, t) = (a sin t/2, cos t/2), unit, same matrix as the matrix form", timeout=300))
        def obs_(x, o, h, Q=Q):
            r = h.sqrt(n2(x[0:3]))
            sh, ch = h.sin(r * h.real(0.5)), h.cos(r * h.real(0.5))
            return [(f"{Q}::from_scaled_axis[{j}] * |v| == v[{j}] sin(|v|/2)", h.eq(o[j] * r, x[j] * sh)) for j in range(3)] + [(f"{Q}::from_scaled_axis.w", h.eq(o[3], ch))]
        ks.append(K(f"{Q.lower()}_from_scaled_axis", 3, 4, f"{wr}(o, 0, {Q}::from_scaled_axis({v3}(i, 0)));", obs_, hyps=lambda x, h: [n2(x[0:3]) > 0], elem=elem, site=f"{Q}::from_scaled_axis",
                    desc=f"{Q}::from_scaled_axis(v) == from_axis_angle(v/|v|, |v|) for v != 0"))
    # ---- extraction direction, axis-angle: from_axis_angle(to_axis_angle(q)) == q for every unit q (atan2 as a constrained symbol: sin t * r = y, cos t * r = x)
    for Q, q_, wr, wv, w1_, elem in (("Quat", "q", "wq", "wv3", "w1", 4), ("DQuat", "dq", "wdq", "wdv3", "wd", 8)):
        def ob_aa(x, o, h, elem=elem):
            l2 = n2(x[0:3])
            tiny = h.real(__import__("fractions").Fraction(1e-8) if elem == 8 else __import__("fractions").Fraction(float(__import__("numpy").float32(1e-8))))
            small = l2 < tiny * tiny
            obs = [(f"from_axis_angle(to_axis_angle(q))[{j}] == q[{j}]", z3or(h, [small, h.eq(o[j], x[j])])) for j in range(4)]
            obs.append(("returned axis is unit", z3or(h, [small, h.eq(n2(o[4:7]), 1)])))
            return obs
        ks.append(K(f"{Q.lower()}_to_axis_angle", 4, 8, f"let (ax, an) = {q_}(i, 0).to_axis_angle(); {wr}(o, 0, {Q}::from_axis_angle(ax, an)); {wv}(o, 4, ax); {w1_}(o, 7, an);", ob_aa,
                    hyps=lambda x, h: [n2(x[0:4]) == 1], elem=elem, site=f"{Q}::to_axis_angle",
                    desc=f"{Q}::to_axis_angle returns a unit axis and an angle that rebuild exactly the same quaternion (incl. w < 0), outside the |v| < 1e-8 fallback", timeout=60))
    # ---- the 24 Euler orders
    tys = [("Mat3", "wm3", 4, 3), ("Mat3A", "wm3a", 4, 3), ("Mat4", "wm4", 4, 4), ("DMat3", "wdm3", 8, 3), ("DMat4", "wdm4", 8, 4)]
    for base in ORDERS:
        for ex in ("", "Ex"):
            name = base + ex
            def prod_m(x, h, base=base, ex=ex):
                ms = [rot[base[k].lower()](h.sin(x[k]), h.cos(x[k])) for k in range(3)]
                if ex:
                    ms = ms[::-1]
                return R.matmul(R.matmul(ms[0], ms[1]), ms[2])
            for T, wr, elem, shape in tys:
                rd = "f" if elem == 4 else "d"
                ks.append(K(f"{T.lower()}_from_euler_{name.lower()}", 3, 9 if shape == 3 else 16, f"{wr}(o, 0, {T}::from_euler(EulerRot::{name}, {rd}(i, 0), {rd}(i, 1), {rd}(i, 2)));",
                            (lambda pm, shape, T, name: lambda x, o, h: R.eq_all(h, o, shape_flat(pm(x, h), shape), f"{T}::from_euler({name})"))(prod_m, shape, T, name),
                            elem=elem, site=f"{T}::from_euler({name})", desc=f"{T}::from_euler({name}, a, b, c) == product of the elementary rotations in the order the variant names"))
            def prod_q(x, h, base=base, ex=ex):
                qs = []
                for k in range(3):
                    sh, ch = h.sin(x[k] * h.real(0.5)), h.cos(x[k] * h.real(0.5))
                    q = [0, 0, 0, ch]
                    q["xyz".index(base[k].lower())] = sh
                    qs.append(q)
                if ex:
                    qs = qs[::-1]
                return R.quat_mul(R.quat_mul(qs[0], qs[1]), qs[2])
            for Q, wr, elem in (("Quat", "wq", 4), ("DQuat", "wdq", 8)):
                rd = "f" if elem == 4 else "d"
                ks.append(K(f"{Q.lower()}_from_euler_{name.lower()}", 3, 4, f"{wr}(o, 0, {Q}::from_euler(EulerRot::{name}, {rd}(i, 0), {rd}(i, 1), {rd}(i, 2)));",
                            (lambda pq, Q, name: lambda x, o, h: (lambda w: [(f"{Q}::from_euler({name}) == +- product of elementary quaternions",
                                                                             z3or(h, [z3and(h, [h.eq(o[j], w[j]) for j in range(4)]), z3and(h, [h.eq(o[j], -w[j]) for j in range(4)])]))])(pq(x, h)))(prod_q, Q, name),
                            elem=elem, site=f"{Q}::from_euler({name})", desc=f"{Q}::from_euler({name}) == Hamilton product of the three elementary quaternions (half-angle symbols), up to overall sign"))
    return ks


def gimbal_kernels():
    """to_euler for every order and matrix type (+ the matching from_euler, used only to build near-singular rotations for native confirmation)"""
    from run import K
    ks = []
    for T, rd, wr, elem, n in (("Mat3", "m3", "wm3", 4, 9), ("Mat3A", "m3a", "wm3a", 4, 9), ("Mat4", "m4", "wm4", 4, 16), ("DMat3", "dm3", "wdm3", 8, 9), ("DMat4", "dm4", "wdm4", 8, 16)):
        f1, w1 = ("f", "w1") if elem == 4 else ("d", "wd")
        for base in ORDERS:
            for ex in ("", "Ex"):
                name = base + ex
                k = K(f"{T.lower()}_to_euler_{name.lower()}", n, 3, f"let (a, b, c) = {rd}(i, 0).to_euler(EulerRot::{name}); {w1}(o, 0, a); {w1}(o, 1, b); {w1}(o, 2, c);", None, elem=elem,
                      site=f"{T}::to_euler({name})", desc=f"{T}::to_euler({name}): the gimbal-lock branch is taken exactly when sqrt(sum of the two squared entries) <= 16 * EPSILON")
                k.order, k.typ = name, T
                ks.append(k)
                k2 = K(f"{T.lower()}_from_euler_h_{name.lower()}", 3, n, f"{wr}(o, 0, {T}::from_euler(EulerRot::{name}, {f1}(i, 0), {f1}(i, 1), {f1}(i, 2)));", None, elem=elem, site="helper")
                k2.helper = True
                ks.append(k2)
    return ks


def gimbal_run(cfg, seed):
    """restated guard (syntactic, on the mode-U path conditions of the optimised IR) + native confirmation on near-singular rotations when the guard has another shape"""
    import math, json, random
    from fractions import Fraction
    import run as e2run, ir, enc
    ks = gimbal_kernels()
    lls, so = e2run.build("c09g", cfg, ks, os.path.join(e2run.BUILD, "work", "e2", f"build-c09g-{cfg}.log"))
    got = e2run._interp_u(lls, [k for k in ks if not getattr(k, "helper", False)])
    nat = enc.Native(so)
    rng = random.Random(seed + 99)
    out = []
    for k in ks:
        if getattr(k, "helper", False):
            continue
        res = dict(site=k.site, kernel=k.name, cfg=cfg, status="pass", detail="", secs=0.0, queries=1, paths=0, validated=0, desc=k.desc)
        g = got[k.name]
        eps16 = Fraction(16) * (Fraction(2) ** (-23 if k.elem == 4 else -52))
        ok = False
        if not isinstance(g, tuple):
            res["paths"] = len(g)
            cmps = set()

            def walk(c):
                if c[0] == "fcmp":
                    for a, b in ((c[2], c[3]), (c[3], c[2])):
                        if b[0] == "c" and b[1] > 0:
                            cmps.add((c[1], a, b[1]))
                elif c[0] in ("not", "and", "or"):
                    for x in c[1:]:
                        walk(x)
            for pc, _ in g:
                for c in pc:
                    walk(c)
            if len(cmps) == 1:
                pred, t, c = next(iter(cmps))
                ok = (c == eps16 and t[0] == "sqrt" and t[1][0] == "fadd" and all(x[0] == "fmul" and x[1] == x[2] and x[1][0] == "in" for x in t[1][1:3]))
        if not ok:
            # native confirmation: a rotation whose middle angle is 1e-4 (f32) / 1e-9 (f64) away from the singularity must NOT take the degenerate branch
            delta = 1e-4 if k.elem == 4 else 1e-9
            rep = k.order[0] == k.order[2]
            found = None
            for _ in range(200):
                a, c = rng.uniform(-2, 2), rng.uniform(0.3, 2)
                b = (rng.choice([0.0, math.pi]) + rng.choice([-1, 1]) * delta) if rep else (rng.choice([-1, 1]) * (math.pi / 2 - delta))
                n = 9 if "mat3" in k.name else 16
                m = nat.call(f"k_{k.typ.lower()}_from_euler_h_{k.order.lower()}", [a, b, c], n, k.elem)
                e = nat.call("k_" + k.name, m, 3, k.elem)
                if e[0] == 0.0 or e[2] == 0.0:
                    found = ([a, b, c], e)
                    break
            if found:
                res.update(status="fail", reproduced=True, inputs=found[0], native=found[1], label="gimbal guard",
                           detail=f"the gimbal-lock test is not `sqrt(x^2 + y^2) > 16*EPSILON`, and the degenerate branch is taken {delta} rad away from the singularity: angles={found[0]} -> to_euler={found[1]}")
            else:
                res.update(status="inconclusive", detail="the gimbal-lock test does not have the documented shape `sqrt(x^2 + y^2) > 16*EPSILON` in the optimised IR, but no native misbehaviour was found")
        out.append(res)
    return out


def e2_run(tier, seed):
    import json
    out = _e2("C09", kernels(tier), tier, seed, cfgs=("sse2", "scalar"))
    for cfg in ("sse2", "scalar"):
        try:
            rs = gimbal_run(cfg, seed)
        except Exception as e:
            out.append(dict(site=f"e2-gimbal-{cfg}", status="broken", detail=str(e)[:600], cfg=cfg, secs=0))
            continue
        for r in rs:
            if r["status"] == "fail":
                path = os.path.join(VERIF, "evidence", "replays", "C09", f"e2-{r['kernel']}-{cfg}.json")
                os.makedirs(os.path.dirname(path), exist_ok=True)
                json.dump(dict(property="C09", engine="E2-U", kernel=r["kernel"], cfg=cfg, inputs=r.get("inputs"), native=r.get("native"), detail=r["detail"]), open(path, "w"), indent=1)
                r["replay_path"] = path
            out.append(r)
    return out


def harnesses(tier, cfg):
    return []
