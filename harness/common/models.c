/* C models of libm functions Kani has no model for, linked into every harness (goto-cc). Each returns an arbitrary value constrained only by the
   function's documented range and domain (NaN outside the domain): a sound over-approximation of any libm. Used where a harness leaves the function interpreted. */
double nondet_double(void);
float nondet_float(void);
double acos(double x) { if (x != x || x < -1.0 || x > 1.0) return 0.0 / 0.0; double r = nondet_double(); __CPROVER_assume(r >= 0.0 && r <= 3.14159265358979323846); return r; }
float acosf(float x) { if (x != x || x < -1.0f || x > 1.0f) return 0.0f / 0.0f; float r = nondet_float(); __CPROVER_assume(r >= 0.0f && r <= 3.14159274f); return r; }
double asin(double x) { if (x != x || x < -1.0 || x > 1.0) return 0.0 / 0.0; double r = nondet_double(); __CPROVER_assume(r >= -1.5707963267948966 && r <= 1.5707963267948966); return r; }
float asinf(float x) { if (x != x || x < -1.0f || x > 1.0f) return 0.0f / 0.0f; float r = nondet_float(); __CPROVER_assume(r >= -1.57079637f && r <= 1.57079637f); return r; }
