"""C10: scale-rotation-translation composition and decomposition are mutually consistent (E2 mode R; E1 for the exact clause)."""
import os, sys
VERIF = os.path.dirname(os.path.dirname(os.path.abspath(__file__)))
sys.path.insert(0, os.path.join(VERIF, "e2"))
from e2glue import e2_run as _e2
from c05 import z3and, z3or
from kb import Harness
from types_ import MATS, draw_mat, LET

CFGS = {"quick": ["sse2"], "thorough": ["sse2", "scalar"]}
BOUNDS = ("E2-R (SSE2 and scalar IR): every TRS constructor on Mat4/DMat4, Affine3A/DAffine3, Affine2/DAffine2, Mat3/DMat3 (2D forms), Mat2/DMat2 equals the documented product "
          "translation * rotation * scale of the elementary constructors as a real function of (scale, quaternion or (S,C), translation), for every q (no unit hypothesis needed); "
          "to_scale_rotation_translation / to_scale_angle_translation: translation == last column, and recomposing the returned parts reproduces M = T*R(p)*diag(s) exactly over the "
          "reals for |p| = 1 and every non-zero scale incl. all sign patterns, on every branch of the matrix-to-quaternion conversion (2D: with the axiom that theta = atan2(a, b) "
          "satisfies (sin, cos) = (a, b)/sqrt(a^2+b^2)). E1: the returned translation is the last column bit for bit. Rounding is outside the claim.")
ASSUMPTIONS = ["IEEE operations read as exact real operations", "atan2 axiom: for t = atan2(y, x), r = sqrt(x^2 + y^2) > 0: sin t = y / r, cos t = x / r (2D decomposition only)"]


def kernels(tier):
    import ref as R
    from run import K
    ks = []
    n2 = lambda q: R.dot(q, q)
    def trs3(s, q, t):
        m = R.quat_to_mat3(q)
        return [R.scale(m[0], s[0]), R.scale(m[1], s[1]), R.scale(m[2], s[2]), t]
    hom = lambda a: [a[0] + [0], a[1] + [0], a[2] + [0], a[3] + [1]]
    for pre, elem in (("", 4), ("D", 8)):
        M4, A3, M3, M2, A2 = pre + "Mat4", pre + ("Affine3" if pre else "Affine3A"), pre + "Mat3", pre + "Mat2", pre + "Affine2"
        v3, q, v2, f1 = (("v3", "q", "v2", "f") if elem == 4 else ("dv3", "dq", "dv2", "d"))
        wm4, wa3, wm3, wm2, wa2 = (("wm4", "wa3", "wm3", "wm2", "wa2") if elem == 4 else ("wdm4", "wda3", "wdm3", "wdm2", "wda2"))
        m3r = "m3" if elem == 4 else "dm3"
        m2r = "m2" if elem == 4 else "dm2"
        # 3D composition
        ks.append(K(f"{M4.lower()}_from_srt", 10, 16, f"{wm4}(o, 0, {M4}::from_scale_rotation_translation({v3}(i, 0), {q}(i, 3), {v3}(i, 7)));",
                    lambda x, o, h: R.eq_all(h, o, R.flat(hom(trs3(x[0:3], x[3:7], x[7:10]))), "from_scale_rotation_translation == T*R*S"), hyps=lambda x, h: [n2(x[3:7]) == 1], elem=elem,
                    site=f"{M4}::from_scale_rotation_translation"))
        ks.append(K(f"{A3.lower()}_from_srt", 10, 12, f"{wa3}(o, 0, {A3}::from_scale_rotation_translation({v3}(i, 0), {q}(i, 3), {v3}(i, 7)));",
                    lambda x, o, h: R.eq_all(h, o, R.flat(trs3(x[0:3], x[3:7], x[7:10])), "from_scale_rotation_translation == T*R*S"), hyps=lambda x, h: [n2(x[3:7]) == 1], elem=elem,
                    site=f"{A3}::from_scale_rotation_translation"))
        ks.append(K(f"{M4.lower()}_from_rt", 7, 16, f"{wm4}(o, 0, {M4}::from_rotation_translation({q}(i, 0), {v3}(i, 4)));",
                    lambda x, o, h: R.eq_all(h, o, R.flat(hom(trs3([1, 1, 1], x[0:4], x[4:7]))), "from_rotation_translation == T*R"), hyps=lambda x, h: [n2(x[0:4]) == 1], elem=elem, site=f"{M4}::from_rotation_translation"))
        ks.append(K(f"{A3.lower()}_from_rt", 7, 12, f"{wa3}(o, 0, {A3}::from_rotation_translation({q}(i, 0), {v3}(i, 4)));",
                    lambda x, o, h: R.eq_all(h, o, R.flat(trs3([1, 1, 1], x[0:4], x[4:7])), "from_rotation_translation == T*R"), hyps=lambda x, h: [n2(x[0:4]) == 1], elem=elem, site=f"{A3}::from_rotation_translation"))
        ks.append(K(f"{M4.lower()}_from_m3t", 12, 16, f"{wm4}(o, 0, {M4}::from_mat3_translation({m3r}(i, 0), {v3}(i, 9)));",
                    lambda x, o, h: R.eq_all(h, o, R.flat(hom(R.cols(x, 0, 3, 3) + [x[9:12]])), "from_mat3_translation"), elem=elem, site=f"{M4}::from_mat3_translation"))
        ks.append(K(f"{A3.lower()}_from_m3t", 12, 12, f"{wa3}(o, 0, {A3}::from_mat3_translation({m3r}(i, 0), {v3}(i, 9)));",
                    lambda x, o, h: R.eq_all(h, o, x[0:12], "from_mat3_translation"), elem=elem, site=f"{A3}::from_mat3_translation"))
        ks.append(K(f"{M4.lower()}_from_scale_translation", 6, 32, f"{wm4}(o, 0, {M4}::from_scale({v3}(i, 0))); {wm4}(o, 16, {M4}::from_translation({v3}(i, 3)));",
                    lambda x, o, h: R.eq_all(h, o[:16], R.flat(hom([[x[0], 0, 0], [0, x[1], 0], [0, 0, x[2]], [0, 0, 0]])), "from_scale") +
                                    R.eq_all(h, o[16:], R.flat(hom(R.identity(3) + [x[3:6]])), "from_translation"), elem=elem, site=f"{M4}::from_scale/from_translation"))
        # 2D composition
        def sat(x, h):
            s, c = h.sin(x[2]), h.cos(x[2])
            return [[c * x[0], s * x[0]], [-s * x[1], c * x[1]], [x[3], x[4]]]
        ks.append(K(f"{A2.lower()}_from_sat", 5, 6, f"{wa2}(o, 0, {A2}::from_scale_angle_translation({v2}(i, 0), {f1}(i, 2), {v2}(i, 3)));",
                    lambda x, o, h: R.eq_all(h, o, R.flat(sat(x, h)), "from_scale_angle_translation == T*R*S"), elem=elem, site=f"{A2}::from_scale_angle_translation"))
        ks.append(K(f"{M3.lower()}_from_sat", 5, 9, f"{wm3}(o, 0, {M3}::from_scale_angle_translation({v2}(i, 0), {f1}(i, 2), {v2}(i, 3)));",
                    lambda x, o, h: R.eq_all(h, o, (lambda a: a[0] + [0] + a[1] + [0] + a[2] + [1])(sat(x, h)), "from_scale_angle_translation == T*R*S"), elem=elem, site=f"{M3}::from_scale_angle_translation"))
        ks.append(K(f"{M2.lower()}_from_scale_angle", 3, 4, f"{wm2}(o, 0, {M2}::from_scale_angle({v2}(i, 0), {f1}(i, 2)));",
                    lambda x, o, h: R.eq_all(h, o, R.flat(sat(list(x) + [0, 0], h)[:2]), "from_scale_angle == R*S"), elem=elem, site=f"{M2}::from_scale_angle"))
        ks.append(K(f"{A2.lower()}_from_angle_translation", 3, 6, f"{wa2}(o, 0, {A2}::from_angle_translation({f1}(i, 0), {v2}(i, 1)));",
                    lambda x, o, h: R.eq_all(h, o, R.flat(sat([1, 1, x[0], x[1], x[2]], h)), "from_angle_translation == T*R"), elem=elem, site=f"{A2}::from_angle_translation"))
        ks.append(K(f"{A2.lower()}_from_mat2_translation", 6, 6, f"{wa2}(o, 0, {A2}::from_mat2_translation({m2r}(i, 0), {v2}(i, 4)));",
                    lambda x, o, h: R.eq_all(h, o, x[0:6], "from_mat2_translation"), elem=elem, site=f"{A2}::from_mat2_translation"))
        # decomposition, 3D, decided in two steps (the monolithic "recompose == M" query exceeds 240 s per branch in nlsat):
        #  step 1 (kernel, arbitrary M): translation == last column; scale == (sign(det)|c0|, |c1|, |c2|); rotation == from_mat3(columns / scale)
        #  step 2 (lemmas on the reference, no kernel): for M = T R(p) diag(s), |p| = 1: columns/scale == R(p) diag(sigma) with sigma in {+-1}^3, prod = +1,
        #          and R(p) diag(sigma) == R(p * d) for the unit quaternion d of that half turn; from_mat3(R(p')) == +-p' for every unit p' is C05.
        for T, rdm, ncol in ((M4, ("m4" if elem == 4 else "dm4"), 4), (A3, ("a3" if elem == 4 else "da3"), 3)):
            nin = 16 if ncol == 4 else 12
            wv = "wv3" if elem == 4 else "wdv3"
            wqq = "wq" if elem == 4 else "wdq"
            Q = "Quat" if elem == 4 else "DQuat"
            M3t = "Mat3" if elem == 4 else "DMat3"

            def struct(x, o, h, ncol=ncol):
                rows = 4 if ncol == 4 else 3
                c = [[x[k * rows + r] for r in range(3)] for k in range(4)]
                det = R.det(c[:3])
                l = [h.sqrt(R.dot(c[k], c[k])) for k in range(3)]
                obs = R.eq_all(h, o[7:10], c[3], "translation == last column")
                obs += [("scale.x == signum(det) * |x_axis|", h.eq(o[0], h.ite(det >= 0, l[0], -l[0]))), ("scale.y == |y_axis|", h.eq(o[1], l[1])), ("scale.z == |z_axis|", h.eq(o[2], l[2]))]
                obs += [(f"rotation == from_mat3(axes / scale) [{j}]", h.eq(o[3 + j], o[10 + j])) for j in range(4)]
                return obs
            ax = (lambda a, ncol=ncol, elem=elem: f"m.{a}_axis.truncate()" if ncol == 4 else (f"Vec3::from(m.matrix3.{a}_axis)" if elem == 4 else f"m.matrix3.{a}_axis"))
            hy = (lambda x, h, ncol=ncol: [R.det([[x[k * (4 if ncol == 4 else 3) + r] for r in range(3)] for k in range(3)]) != 0] + ([x[3] == 0, x[7] == 0, x[11] == 0, x[15] == 1] if ncol == 4 else []))
            ks.append(K(f"{T.lower()}_decompose_struct", nin, 14,
                        f"let m = {rdm}(i, 0); let (s, r, t) = m.to_scale_rotation_translation(); {wv}(o, 0, s); {wqq}(o, 3, r); {wv}(o, 7, t); "
                        f"let inv = s.recip(); let c = {M3t}::from_cols({ax('x')} * inv.x, {ax('y')} * inv.y, {ax('z')} * inv.z); {wqq}(o, 10, {Q}::from_mat3(&c));",
                        struct, hyps=hy, elem=elem, site=f"{T}::to_scale_rotation_translation",
                        desc="to_scale_rotation_translation of an ARBITRARY non-singular affine matrix: translation = last column, scale = (sign(det)|c0|, |c1|, |c2|), rotation = matrix-to-quaternion of the normalised axes", timeout=120))
    # (a direct 'rotation of T R(p) diag(s) is +-p' query, even restricted to s > 0, exceeds 200 s per branch in nlsat: not claimed; the branch bodies of the
    #  matrix-to-quaternion conversion are decided in C05 on unscaled rotations, and steps 1+2 reduce the scaled case to it)
    # step 2 lemmas (pure reference algebra, decided by z3)
    for sig, d in (((1, 1, 1), [0, 0, 0, 1]), ((1, -1, -1), [1, 0, 0, 0]), ((-1, 1, -1), [0, 1, 0, 0]), ((-1, -1, 1), [0, 0, 1, 0])):
        def lem(x, o, h, sig=sig, d=d):
            m = R.quat_to_mat3(x[0:4])
            left = [R.scale(m[k], sig[k]) for k in range(3)]
            right = R.quat_to_mat3(R.quat_mul(x[0:4], d))
            return R.eq_all(h, R.flat(left), R.flat(right), f"R(p) diag{sig} == R(p*d)") + [("p*d is unit", h.eq(n2(R.quat_mul(x[0:4], d)), 1))]
        ks.append(K(f"lemma_halfturn_{''.join('p' if v > 0 else 'm' for v in sig)}", 4, 0, "", lem, hyps=lambda x, h: [n2(x[0:4]) == 1], site="decompose lemma",
                    desc=f"R(p) diag{sig} is the rotation of the unit quaternion p*d (d = half turn), so the normalised axes of T R(p) diag(s) are a proper rotation for every sign pattern"))
    for e in [(a, b, c) for a in (1, -1) for b in (1, -1) for c in (1, -1)]:
        def lem_axes(x, o, h, e=e):
            # M = R(p) diag(s) with sign pattern e of s: scale returned = (sign(det)|s0|, |s1|, |s2|); normalised axes = R(p) diag(sigma), prod sigma = +1
            m = R.quat_to_mat3(x[0:4])
            s = x[4:7]
            sdet = e[0] * e[1] * e[2]
            scale = [sdet * e[0] * s[0], e[1] * s[1], e[2] * s[2]]
            sigma = [sdet * e[0], e[1], e[2]]
            obs = [(f"axis {k}[{r}] == R(p)[{k}][{r}] sigma_k scale_k", h.eq(m[k][r] * s[k], m[k][r] * sigma[k] * scale[k])) for k in range(3) for r in range(3)]
            obs.append(("sigma product == +1", h.eq(sigma[0] * sigma[1] * sigma[2], 1)))
            obs += [(f"|column {k}|^2 == s{k}^2", h.eq(R.dot(R.scale(m[k], s[k]), R.scale(m[k], s[k])), s[k] * s[k])) for k in range(3)]
            obs.append(("det(R(p) diag(s)) == s0 s1 s2", h.eq(R.det([R.scale(m[k], s[k]) for k in range(3)]), s[0] * s[1] * s[2])))
            obs += [(f"scale_{k} has the documented sign", (scale[k] > 0) if k > 0 else (scale[0] * sdet > 0)) for k in range(3)]
            return obs
        ks.append(K(f"lemma_axes_signs_{''.join('p' if v > 0 else 'm' for v in e)}", 7, 0, "", lem_axes, hyps=(lambda x, h, e=e: [n2(x[0:4]) == 1] + [e[k] * x[4 + k] > 0 for k in range(3)]),
                    site="decompose lemma", desc=f"sign bookkeeping of to_scale_rotation_translation on M = R(p) diag(s), scale signs {e}", timeout=240))
    for pre, elem in (("", 4), ("D", 8)):
        M4, A3, M3, M2, A2 = pre + "Mat4", pre + ("Affine3" if pre else "Affine3A"), pre + "Mat3", pre + "Mat2", pre + "Affine2"
        v3, q, v2, f1 = (("v3", "q", "v2", "f") if elem == 4 else ("dv3", "dq", "dv2", "d"))
        wm4, wa3, wm3, wm2, wa2 = (("wm4", "wa3", "wm3", "wm2", "wa2") if elem == 4 else ("wdm4", "wda3", "wdm3", "wdm2", "wda2"))
        # 2D decomposition
        def rec2(x, o, h):
            return R.eq_all(h, o[:6], R.flat(sat(x, h)), "recompose(decompose(M)) == M (2D)") + R.eq_all(h, o[6:8], x[3:5], "translation == last column")
        ks.append(K(f"{A2.lower()}_decompose", 5, 8, f"let m = {A2}::from_scale_angle_translation({v2}(i, 0), {f1}(i, 2), {v2}(i, 3)); let (s, a, t) = m.to_scale_angle_translation(); "
                    f"{wa2}(o, 0, {A2}::from_scale_angle_translation(s, a, t)); {'wv2' if elem == 4 else 'wdv2'}(o, 6, t);", rec2, hyps=lambda x, h: [x[0] != 0, x[1] != 0], elem=elem,
                    site=f"{A2}::to_scale_angle_translation", timeout=240))
    return ks


def e2_run(tier, seed):
    return _e2("C10", kernels(tier), tier, seed, cfgs=("sse2", "scalar"))


def harnesses(tier, cfg):
    hs = []
    for M, n in (("Mat4", 3), ("Affine3A", 3), ("DMat4", 3), ("DAffine3", 3)):
        m = MATS[M]
        code, e = draw_mat(m, "a")
        hs.append(Harness(f"c10_{m.lname}_decompose_translation", "\n".join([code, "let (s_, r_, t) = a.to_scale_rotation_translation();"] +
                          [f'va!("{M}::to_scale_rotation_translation translation[{k}]", t.{LET[k]}.bits({e[m.cols - 1][k]}));' for k in range(3)]), backend="sat",
                          uf=("sqrt",), desc=f"{M}::to_scale_rotation_translation returns the last column as translation, bit for bit, for every matrix", site=f"{M}::to_scale_rotation_translation"))
    return hs
