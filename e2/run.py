"""E2 driver: generate the wrapper crate, build it (LLVM IR + cdylib) against /repo's working tree, interpret each kernel's IR symbolically,
discharge the obligations with z3 (cross-check: cvc5 where cheap), validate the translation against the native code, replay counterexamples natively."""
import glob, json, os, random, re, shutil, subprocess, sys, time, math, traceback
from fractions import Fraction
from concurrent.futures import ProcessPoolExecutor
import numpy as np
import z3
HERE = os.path.dirname(os.path.abspath(__file__))
VERIF = os.path.dirname(HERE)
sys.path.insert(0, HERE)
import ir, enc

REPO = os.environ.get("VERIF_REPO", "/repo")
BUILD = os.path.join(VERIF, "build")

E2CFG = {
    "sse2": dict(features=[], rustflags=""),
    "scalar": dict(features=["scalar-math"], rustflags=""),
    "fma": dict(features=[], rustflags="-C target-feature=+fma,+avx2"),
    "sse41": dict(features=[], rustflags="-C target-feature=+sse4.1"),
}

PRELUDE = r'''
#![allow(warnings)]
use glam::*;
#[inline(always)] unsafe fn f(i: *const f32, k: usize) -> f32 { *i.add(k) }
#[inline(always)] unsafe fn v2(i: *const f32, k: usize) -> Vec2 { Vec2::new(f(i, k), f(i, k + 1)) }
#[inline(always)] unsafe fn v3(i: *const f32, k: usize) -> Vec3 { Vec3::new(f(i, k), f(i, k + 1), f(i, k + 2)) }
#[inline(always)] unsafe fn v3a(i: *const f32, k: usize) -> Vec3A { Vec3A::new(f(i, k), f(i, k + 1), f(i, k + 2)) }
#[inline(always)] unsafe fn v3ah(i: *const f32, k: usize) -> Vec3A { Vec3A::from_vec4(Vec4::new(f(i, k), f(i, k + 1), f(i, k + 2), f(i, k + 3))) }
#[inline(always)] unsafe fn v4(i: *const f32, k: usize) -> Vec4 { Vec4::new(f(i, k), f(i, k + 1), f(i, k + 2), f(i, k + 3)) }
#[inline(always)] unsafe fn q(i: *const f32, k: usize) -> Quat { Quat::from_xyzw(f(i, k), f(i, k + 1), f(i, k + 2), f(i, k + 3)) }
#[inline(always)] unsafe fn m2(i: *const f32, k: usize) -> Mat2 { Mat2::from_cols(v2(i, k), v2(i, k + 2)) }
#[inline(always)] unsafe fn m3(i: *const f32, k: usize) -> Mat3 { Mat3::from_cols(v3(i, k), v3(i, k + 3), v3(i, k + 6)) }
#[inline(always)] unsafe fn m3a(i: *const f32, k: usize) -> Mat3A { Mat3A::from_cols(v3a(i, k), v3a(i, k + 3), v3a(i, k + 6)) }
#[inline(always)] unsafe fn m4(i: *const f32, k: usize) -> Mat4 { Mat4::from_cols(v4(i, k), v4(i, k + 4), v4(i, k + 8), v4(i, k + 12)) }
#[inline(always)] unsafe fn a2(i: *const f32, k: usize) -> Affine2 { Affine2::from_cols(v2(i, k), v2(i, k + 2), v2(i, k + 4)) }
#[inline(always)] unsafe fn a3(i: *const f32, k: usize) -> Affine3A { Affine3A::from_cols(v3a(i, k), v3a(i, k + 3), v3a(i, k + 6), v3a(i, k + 9)) }
#[inline(always)] unsafe fn w1(o: *mut f32, k: usize, v: f32) { *o.add(k) = v; }
#[inline(always)] unsafe fn wv2(o: *mut f32, k: usize, v: Vec2) { w1(o, k, v.x); w1(o, k + 1, v.y); }
#[inline(always)] unsafe fn wv3(o: *mut f32, k: usize, v: Vec3) { w1(o, k, v.x); w1(o, k + 1, v.y); w1(o, k + 2, v.z); }
#[inline(always)] unsafe fn wv3a(o: *mut f32, k: usize, v: Vec3A) { w1(o, k, v.x); w1(o, k + 1, v.y); w1(o, k + 2, v.z); }
#[inline(always)] unsafe fn wv4(o: *mut f32, k: usize, v: Vec4) { w1(o, k, v.x); w1(o, k + 1, v.y); w1(o, k + 2, v.z); w1(o, k + 3, v.w); }
#[inline(always)] unsafe fn wq(o: *mut f32, k: usize, v: Quat) { w1(o, k, v.x); w1(o, k + 1, v.y); w1(o, k + 2, v.z); w1(o, k + 3, v.w); }
#[inline(always)] unsafe fn wm2(o: *mut f32, k: usize, m: Mat2) { wv2(o, k, m.x_axis); wv2(o, k + 2, m.y_axis); }
#[inline(always)] unsafe fn wm3(o: *mut f32, k: usize, m: Mat3) { wv3(o, k, m.x_axis); wv3(o, k + 3, m.y_axis); wv3(o, k + 6, m.z_axis); }
#[inline(always)] unsafe fn wm3a(o: *mut f32, k: usize, m: Mat3A) { wv3a(o, k, m.x_axis); wv3a(o, k + 3, m.y_axis); wv3a(o, k + 6, m.z_axis); }
#[inline(always)] unsafe fn wm4(o: *mut f32, k: usize, m: Mat4) { wv4(o, k, m.x_axis); wv4(o, k + 4, m.y_axis); wv4(o, k + 8, m.z_axis); wv4(o, k + 12, m.w_axis); }
#[inline(always)] unsafe fn wa2(o: *mut f32, k: usize, m: Affine2) { wm2(o, k, m.matrix2); wv2(o, k + 4, m.translation); }
#[inline(always)] unsafe fn wa3(o: *mut f32, k: usize, m: Affine3A) { wm3a(o, k, m.matrix3); wv3a(o, k + 9, m.translation); }
#[inline(always)] unsafe fn d(i: *const f64, k: usize) -> f64 { *i.add(k) }
#[inline(always)] unsafe fn dv2(i: *const f64, k: usize) -> DVec2 { DVec2::new(d(i, k), d(i, k + 1)) }
#[inline(always)] unsafe fn dv3(i: *const f64, k: usize) -> DVec3 { DVec3::new(d(i, k), d(i, k + 1), d(i, k + 2)) }
#[inline(always)] unsafe fn dv4(i: *const f64, k: usize) -> DVec4 { DVec4::new(d(i, k), d(i, k + 1), d(i, k + 2), d(i, k + 3)) }
#[inline(always)] unsafe fn dq(i: *const f64, k: usize) -> DQuat { DQuat::from_xyzw(d(i, k), d(i, k + 1), d(i, k + 2), d(i, k + 3)) }
#[inline(always)] unsafe fn dm2(i: *const f64, k: usize) -> DMat2 { DMat2::from_cols(dv2(i, k), dv2(i, k + 2)) }
#[inline(always)] unsafe fn dm3(i: *const f64, k: usize) -> DMat3 { DMat3::from_cols(dv3(i, k), dv3(i, k + 3), dv3(i, k + 6)) }
#[inline(always)] unsafe fn dm4(i: *const f64, k: usize) -> DMat4 { DMat4::from_cols(dv4(i, k), dv4(i, k + 4), dv4(i, k + 8), dv4(i, k + 12)) }
#[inline(always)] unsafe fn da2(i: *const f64, k: usize) -> DAffine2 { DAffine2::from_cols(dv2(i, k), dv2(i, k + 2), dv2(i, k + 4)) }
#[inline(always)] unsafe fn da3(i: *const f64, k: usize) -> DAffine3 { DAffine3::from_cols(dv3(i, k), dv3(i, k + 3), dv3(i, k + 6), dv3(i, k + 9)) }
#[inline(always)] unsafe fn wd(o: *mut f64, k: usize, v: f64) { *o.add(k) = v; }
#[inline(always)] unsafe fn wdv2(o: *mut f64, k: usize, v: DVec2) { wd(o, k, v.x); wd(o, k + 1, v.y); }
#[inline(always)] unsafe fn wdv3(o: *mut f64, k: usize, v: DVec3) { wd(o, k, v.x); wd(o, k + 1, v.y); wd(o, k + 2, v.z); }
#[inline(always)] unsafe fn wdv4(o: *mut f64, k: usize, v: DVec4) { wd(o, k, v.x); wd(o, k + 1, v.y); wd(o, k + 2, v.z); wd(o, k + 3, v.w); }
#[inline(always)] unsafe fn wdq(o: *mut f64, k: usize, v: DQuat) { wd(o, k, v.x); wd(o, k + 1, v.y); wd(o, k + 2, v.z); wd(o, k + 3, v.w); }
#[inline(always)] unsafe fn wdm2(o: *mut f64, k: usize, m: DMat2) { wdv2(o, k, m.x_axis); wdv2(o, k + 2, m.y_axis); }
#[inline(always)] unsafe fn wdm3(o: *mut f64, k: usize, m: DMat3) { wdv3(o, k, m.x_axis); wdv3(o, k + 3, m.y_axis); wdv3(o, k + 6, m.z_axis); }
#[inline(always)] unsafe fn wdm4(o: *mut f64, k: usize, m: DMat4) { wdv4(o, k, m.x_axis); wdv4(o, k + 4, m.y_axis); wdv4(o, k + 8, m.z_axis); wdv4(o, k + 12, m.w_axis); }
#[inline(always)] unsafe fn wda2(o: *mut f64, k: usize, m: DAffine2) { wdm2(o, k, m.matrix2); wdv2(o, k + 4, m.translation); }
#[inline(always)] unsafe fn wda3(o: *mut f64, k: usize, m: DAffine3) { wdm3(o, k, m.matrix3); wdv3(o, k + 9, m.translation); }
'''


class K:
    """one kernel = one extern "C" wrapper around a glam call + the obligations on its outputs.

    rust:   body of the wrapper; reads inputs with f(i,k)/v3(i,k)/m4(i,k)/..., writes outputs with w1/wv3/wm4/...
    oblig:  fn(x, o, h) -> [(label, formula)]   x: inputs, o: outputs (z3 reals or floats), h: helper (Z3H or NumH); use h.eq / plain comparisons
    hyps:   fn(x, h) -> [formula]               hypotheses on the inputs (e.g. |q|^2 == 1)
    """
    def __init__(self, name, nin, nout, rust, oblig, hyps=None, elem=4, site=None, desc="", cfgs=None, timeout=None, tags=()):
        self.name, self.nin, self.nout, self.rust, self.oblig, self.hyps = name, nin, nout, rust, oblig, hyps
        self.elem, self.site, self.desc, self.cfgs, self.timeout, self.tags = elem, site or name, desc, cfgs, timeout, tags


def crate_source(kernels):
    out = [PRELUDE]
    for k in kernels:
        ty = "f32" if k.elem == 4 else "f64"
        out.append(f'#[no_mangle] pub unsafe extern "C" fn k_{k.name}(i: *const {ty}, o: *mut {ty}) {{\n{k.rust}\n}}')
    return "\n".join(out)


def build(tag, cfg, kernels, log):
    c = E2CFG[cfg]
    cdir = os.path.join(BUILD, "crates", f"e2-{tag}-{cfg}")
    os.makedirs(os.path.join(cdir, "src"), exist_ok=True)
    os.makedirs(os.path.join(cdir, ".cargo"), exist_ok=True)
    feats = ", ".join(f'"{f}"' for f in c["features"])
    open(os.path.join(cdir, "Cargo.toml"), "w").write(f'''[package]
name = "vk"
version = "0.0.0"
edition = "2021"
[lib]
crate-type = ["cdylib"]
[dependencies]
glam = {{ path = "{REPO}", features = [{feats}] }}
[workspace]
[profile.release]
opt-level = 3
codegen-units = 1
panic = "abort"
debug = 0
''')
    open(os.path.join(cdir, ".cargo", "config.toml"), "w").write("[net]\noffline = true\n")
    if not os.path.exists(os.path.join(cdir, "Cargo.lock")) and os.path.exists(os.path.join(REPO, "Cargo.lock")):
        shutil.copy(os.path.join(REPO, "Cargo.lock"), os.path.join(cdir, "Cargo.lock"))
    open(os.path.join(cdir, "src", "lib.rs"), "w").write(crate_source(kernels))
    tdir = os.path.join(BUILD, "target", f"e2-{tag}-{cfg}")
    env = dict(os.environ, RUSTFLAGS=f"--emit=llvm-ir,link --cap-lints warn {c['rustflags']}".strip(), CARGO_NET_OFFLINE="true")
    env.pop("RUSTUP_TOOLCHAIN", None)
    for f in glob.glob(os.path.join(tdir, "release", "deps", "vk*.ll")):
        os.remove(f)      # (glam's own .ll is rewritten by cargo whenever /repo's sources change)
    r = subprocess.run(["cargo", "build", "--release", "--offline", "--target-dir", tdir], cwd=cdir, env=env, stdout=subprocess.PIPE, stderr=subprocess.STDOUT, text=True)
    open(log, "w").write(r.stdout)
    if r.returncode != 0:
        raise RuntimeError(f"E2 kernel crate build failed ({cfg}); log {log}\n" + "\n".join(l for l in r.stdout.splitlines() if l.startswith("error"))[:2000])
    deps = os.path.join(tdir, "release", "deps")
    lls = glob.glob(os.path.join(deps, "*.ll"))
    so = os.path.join(tdir, "release", "libvk.so")
    return lls, so


_G = {}


def _init(lls, so, kernels, seed, cap):
    mod = None
    for f in sorted(lls, key=lambda p: 0 if os.path.basename(p).startswith("vk") else 1):
        mod = ir.parse_module(open(f).read(), mod)
    _G.update(mod=mod, so=so, kernels=kernels, seed=seed, cap=cap, native=None)


def rand_inputs(rng, n, elem):
    ft = np.float32 if elem == 4 else np.float64
    kind = rng.randrange(5)
    if kind == 4:     # signed zeros and units: exposes +0 / -0 differences
        return [rng.choice([0.0, -0.0, 1.0, -1.0]) for _ in range(n)]
    if kind == 0:
        return [float(rng.randint(-4, 4)) for _ in range(n)]
    if kind == 1:
        return [float(ft(rng.uniform(-2, 2))) for _ in range(n)]
    if kind == 2:
        return [float(ft(rng.uniform(-100, 100))) for _ in range(n)]
    return [float(ft(rng.choice([0.0, 1.0, -1.0, 0.5, 2.0, -3.0]))) for _ in range(n)]


def has_uf(t, memo):
    if t in memo:
        return memo[t]
    r = isinstance(t, tuple) and (t[0] == "uf" or any(has_uf(x, memo) for x in t[1:] if isinstance(x, tuple)))
    memo[t] = r
    return r


def check_kernel(idx):
    """runs in a worker process; returns a result dict"""
    k = _G["kernels"][idx]
    t0 = time.time()
    res = dict(site=k.site, kernel=k.name, status="pass", detail="", secs=0.0, queries=0, paths=0, validated=0, desc=k.desc)
    try:
        m = ir.Machine(_G["mod"], in_elem=k.elem)
        paths = m.run_kernel("k_" + k.name)
        res["paths"] = len(paths)
        res["ops"] = sum(1 for _ in {id(t) for p in paths for t in p[1].values()})
        for pc, outs in paths:
            if sorted(outs) != list(range(k.nout)):
                raise ir.NotEncoded(f"outputs written {sorted(outs)} != 0..{k.nout}")
        # ---- translator validation: the term DAG evaluated op by op must reproduce the native wrapper bit for bit
        if _G["native"] is None:
            _G["native"] = enc.Native(_G["so"])
        rng = random.Random(_G["seed"] * 7919 + idx)
        ft = np.float32 if k.elem == 4 else np.float64
        nval = 0
        for _ in range(8):
            xs = rand_inputs(rng, k.nin, k.elem)
            nat = _G["native"].call("k_" + k.name, xs, k.nout, k.elem)
            memo = {}
            chosen = None
            try:
                for pc, outs in paths:
                    if all(enc.cond_eval(c, xs, ft, memo) for c in pc):
                        chosen = outs
                        break
                if chosen is None:
                    continue
                ufm = {}
                for j in range(k.nout):
                    if has_uf(chosen[j], ufm):
                        continue
                    v = enc.num_eval(chosen[j], xs, ft, memo)
                    a, b = ft(nat[j]), ft(v)
                    same = (a == b) or (a != a and b != b)
                    if not same:
                        res.update(status="broken", detail=f"translator validation failed: out[{j}] native={a!r} dag={b!r} inputs={xs}")
                        res["secs"] = time.time() - t0
                        return res
                nval += 1
            except ValueError:
                pass
        res["validated"] = nval
        if "poly" in k.tags:
            import lattice
            res["lattice_exact_k"] = lattice.max_exact_k([outs[j] for pc, outs in paths for j in range(k.nout)], k.elem)
        # ---- obligations, per path
        cap = k.timeout or _G["cap"]
        feasible = 0
        for pi, (pc, outs) in enumerate(paths):
            if os.environ.get("VERIF_E2_PATH") and int(os.environ["VERIF_E2_PATH"]) != pi:      # development aid
                continue
            h = enc.Z3H()
            xs = [z3.Real(f"x{i}") for i in range(k.nin)]
            e = enc.REnc(h, xs)
            o = [e.term(outs[j]) for j in range(k.nout)]
            pcz = [e.cond(c) for c in pc]
            hy = list(k.hyps(xs, h)) if k.hyps else []
            obs = k.oblig(xs, o, h)
            base = hy + pcz + h.side + h.domain
            s = z3.Solver()
            s.set("timeout", int(cap * 1000))
            s.add(*base)
            r0 = s.check()
            res["queries"] += 1
            if r0 == z3.unsat:
                continue          # path infeasible under the hypotheses
            if r0 == z3.sat:
                feasible += 1
            for label, fml in obs:
                # cheap pre-check: an equality whose two sides are the same polynomial in the inputs and auxiliary symbols is discharged by z3's simplifier (sum-of-monomials normal form)
                try:
                    if z3.is_eq(fml) and z3.is_arith(fml.arg(0)):
                        dz = z3.simplify(fml.arg(0) - fml.arg(1), som=True, sort_sums=True)
                        if z3.is_rational_value(dz) and dz.as_fraction() == 0:
                            res["queries"] += 1
                            res["simplifier_discharged"] = res.get("simplifier_discharged", 0) + 1
                            continue
                except Exception:
                    pass
                s = z3.Solver()
                s.set("timeout", int(cap * 1000))
                s.add(*base)
                s.add(z3.Not(fml))
                r = s.check()
                res["queries"] += 1
                if r == z3.unsat:
                    continue
                if r == z3.unknown:
                    res.update(status="inconclusive", detail=f"path {pi} obligation '{label}': z3 unknown ({s.reason_unknown()}) after {cap}s")
                    res["secs"] = time.time() - t0
                    return res
                # counterexample: replay against the native code
                mdl = s.model()
                cx = []
                for x in xs:
                    v = mdl.eval(x, model_completion=True)
                    try:
                        cx.append(float(v.as_fraction()) if z3.is_rational_value(v) else float(v.approx(20).as_fraction()))
                    except Exception:
                        cx.append(0.0)
                cx = [float(ft(c)) for c in cx]
                nat = _G["native"].call("k_" + k.name, cx, k.nout, k.elem)
                nh = enc.NumH()
                tol = 3e-5 if k.elem == 4 else 1e-9     # a wrong formula is off by far more than accumulated rounding of these small kernels
                nh.eq = lambda a, b: abs(a - b) <= tol * (1 + abs(a) + abs(b)) or (a != a and b != b)
                try:
                    hy_ok = all(bool(c) for c in (k.hyps_num(cx, nh) if hasattr(k, "hyps_num") else []))
                    nobs = k.oblig(cx, nat, nh)
                    bad = [lab for lab, ok in nobs if not ok and lab == label]
                except Exception as ex:
                    bad, nobs = None, str(ex)
                res.update(status="fail", detail=f"path {pi} obligation '{label}' refuted; model inputs={cx} native outputs={nat}",
                           inputs=cx, native=nat, reproduced=bool(bad), label=label)
                res["secs"] = time.time() - t0
                return res
        if feasible == 0:
            res.update(status="broken", detail="vacuous: no path is feasible under the hypotheses (or z3 could not tell)")
    except ir.NotEncoded as ex:
        res.update(status="inconclusive", detail="kernel not encoded: " + str(ex)[:300])
    except ir.PathLimit as ex:
        res.update(status="inconclusive", detail=str(ex))
    except Exception as ex:
        res.update(status="broken", detail="exception: " + traceback.format_exc()[-600:])
    res["secs"] = time.time() - t0
    return res


def run(tag, cfg, kernels, seed=0, cap=60, jobs=14):
    """build + check all kernels for one configuration; returns list of result dicts"""
    os.makedirs(os.path.join(BUILD, "work", "e2"), exist_ok=True)
    kernels = [k for k in kernels if k.cfgs is None or cfg in k.cfgs]
    if not kernels:
        return []
    t0 = time.time()
    lls, so = build(tag, cfg, kernels, os.path.join(BUILD, "work", "e2", f"build-{tag}-{cfg}.log"))
    bt = time.time() - t0
    _init(lls, so, kernels, seed, cap)
    import multiprocessing as mp
    ctx = mp.get_context("fork")
    with ProcessPoolExecutor(jobs, mp_context=ctx) as ex:
        results = list(ex.map(check_kernel, range(len(kernels))))
    for r in results:
        r["cfg"] = cfg
        r["build_s"] = round(bt, 1)
    return results


# ---------------------------------------------------------------------------------------------
# mode U: two builds of the same kernels must have the same IEEE operation DAG (bit-for-bit identical results)
# ---------------------------------------------------------------------------------------------
def _interp_u(lls, kernels):
    mod = None
    for f in sorted(lls, key=lambda p: 0 if os.path.basename(p).startswith("vk") else 1):
        mod = ir.parse_module(open(f).read(), mod)
    out = {}
    for k in kernels:
        try:
            m = ir.Machine(mod, in_elem=k.elem, opaque=True, max_paths=256)
            out[k.name] = m.run_kernel("k_" + k.name)
        except (ir.NotEncoded, ir.PathLimit) as e:
            out[k.name] = ("not-encoded", str(e)[:200])
    return out


def run_u(tag, cfg_a, cfg_b, kernels, seed=0, samples=4000):
    """returns result dicts: pass = identical path conditions and output DAGs in both builds (decided by structural identity of the hash-consed terms,
    and for commutative re-orderings by z3 over uninterpreted IEEE operations); fail = a native bit difference was found on replay"""
    os.makedirs(os.path.join(BUILD, "work", "e2"), exist_ok=True)
    la, soa = build(tag, cfg_a, kernels, os.path.join(BUILD, "work", "e2", f"build-{tag}-{cfg_a}.log"))
    lb, sob = build(tag, cfg_b, kernels, os.path.join(BUILD, "work", "e2", f"build-{tag}-{cfg_b}.log"))
    ra, rb = _interp_u(la, kernels), _interp_u(lb, kernels)
    na, nb = enc.Native(soa), enc.Native(sob)
    rng = random.Random(seed + 12345)
    results = []
    for k in kernels:
        t0 = time.time()
        a, b = ra[k.name], rb[k.name]
        res = dict(site=k.site, kernel=k.name, cfg=f"{cfg_a}~{cfg_b}", status="pass", detail="", secs=0.0, queries=1, paths=0, validated=0)
        if isinstance(a, tuple) or isinstance(b, tuple):
            res.update(status="inconclusive", detail=f"kernel not encoded in mode U: {a[1] if isinstance(a, tuple) else b[1]}")
            results.append(res)
            continue
        res["paths"] = len(a)
        same = len(a) == len(b)
        if same:
            # paths are explored in the same deterministic order in both builds
            um = {}
            for (pca, oa), (pcb, ob) in zip(a, b):
                pca, pcb = [enc.unorm(c, um) for c in pca], [enc.unorm(c, um) for c in pcb]
                oa, ob = {j: enc.unorm(t, um) for j, t in oa.items()}, {j: enc.unorm(t, um) for j, t in ob.items()}
                if pca != pcb or oa != ob:
                    same = False
                    # commutative re-ordering? decide with z3 over uninterpreted functions
                    try:
                        ue = enc.UEnc()
                        s = z3.Solver()
                        s.set("timeout", 20000)
                        diffs = [ue.term(oa[j]) != ue.term(ob[j]) for j in oa if j in ob]
                        s.add(z3.Or(*diffs) if diffs else z3.BoolVal(False))
                        if pca == pcb and set(oa) == set(ob) and s.check() == z3.unsat:
                            same = True
                            continue
                    except Exception:
                        pass
                    break
        if not same:
            # the DAGs differ: look for a native bit difference
            ft = np.float32 if k.elem == 4 else np.float64
            found = None
            for _ in range(samples):
                xs = rand_inputs(rng, k.nin, k.elem)
                oa_, ob_ = na.call("k_" + k.name, xs, k.nout, k.elem), nb.call("k_" + k.name, xs, k.nout, k.elem)
                for j in range(k.nout):
                    x, y = ft(oa_[j]), ft(ob_[j])
                    if not ((x == y and np.signbit(x) == np.signbit(y)) or (x != x and y != y)):
                        found = (xs, j, float(x), float(y))
                        break
                if found:
                    break
            if found:
                res.update(status="fail", reproduced=True, inputs=found[0], native=[found[2], found[3]], label=f"output {found[1]}",
                           detail=f"builds {cfg_a} and {cfg_b} compute different IEEE operation DAGs and differ natively: inputs={found[0]} out[{found[1]}]: {found[2]!r} vs {found[3]!r}")
            else:
                res.update(status="inconclusive", detail=f"builds {cfg_a} and {cfg_b} have different operation DAGs but no native bit difference was found in {samples} samples")
        res["secs"] = time.time() - t0
        results.append(res)
    return results


def run_syntactic(tag, cfg, kernels, seed=0, samples=2000):
    """obligation: every output term of the (opaque, mode-U) symbolic execution IS the expected term (k.expect_terms(nin) -> list of terms); otherwise the kernel is
    replayed natively against k.expect_num(xs) and a bit difference is a violation."""
    os.makedirs(os.path.join(BUILD, "work", "e2"), exist_ok=True)
    lls, so = build(tag + "s", cfg, kernels, os.path.join(BUILD, "work", "e2", f"build-{tag}s-{cfg}.log"))
    got = _interp_u(lls, kernels)
    nat = enc.Native(so)
    rng = random.Random(seed + 777)
    out = []
    for k in kernels:
        t0 = time.time()
        res = dict(site=k.site, kernel=k.name, cfg=cfg, status="pass", detail="", secs=0.0, queries=1, paths=0, validated=0, desc=k.desc)
        g = got[k.name]
        want = k.expect_terms()
        ok = not isinstance(g, tuple) and len(g) == 1 and not g[0][0] and [g[0][1].get(j) for j in range(k.nout)] == want
        if not ok:
            ft = np.float32 if k.elem == 4 else np.float64
            found = None
            for _ in range(samples):
                xs = rand_inputs(rng, k.nin, k.elem)
                if rng.random() < 0.5:
                    xs = [float(ft(rng.choice([-7.5, -5.0, -3.0, -1.0, 1.0, 2.0, 3.0, 5.0, 7.5, 1e10]))) for _ in range(k.nin)]
                o = nat.call("k_" + k.name, xs, k.nout, k.elem)
                w = k.expect_num(xs)
                for j in range(k.nout):
                    a, b = ft(o[j]), ft(w[j])
                    if not (a == b or (a != a and b != b)):
                        found = (xs, j, float(a), float(b))
                        break
                if found:
                    break
            if found:
                res.update(status="fail", reproduced=True, inputs=found[0], native=[found[2]], label=f"output {found[1]}",
                           detail=f"output {found[1]} is not the primitive operation of its lane operands: inputs={found[0]} got {found[2]!r}, primitive gives {found[3]!r}")
            else:
                res.update(status="inconclusive", detail="output terms are not syntactically the expected primitive operations, but no native difference was found: " + (g[1] if isinstance(g, tuple) else "different DAG"))
        res["secs"] = time.time() - t0
        out.append(res)
    return out
