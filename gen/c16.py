"""C16: swizzle getters / with_ setters permute exactly the lanes their names spell (bits)."""
from kb import Harness
from types_ import VEC, LET, draw_vec, swizzle_trait_methods, swizzle_impl_types, SCALARS

CFGS = {"quick": ["sse2", "scalar"], "thorough": ["sse2", "scalar"]}
QUICK_TYPES = ["Vec2", "Vec3", "Vec3A", "Vec4", "IVec2", "IVec3", "IVec4", "U8Vec2", "U8Vec3", "U8Vec4", "DVec3", "I64Vec4"]


def res_type(t, n):
    if t.name == "Vec3A" and n == 3:
        return VEC["Vec3A"]
    return VEC[f"{SCALARS[t.scalar]['prefix']}{n}"]


def harnesses(tier, cfg):
    methods = swizzle_trait_methods()
    impls = swizzle_impl_types()
    hs = []
    for tname, dim in sorted(impls.items()):
        if tname not in VEC:
            continue
        if tier == "quick" and tname not in QUICK_TYPES:
            continue
        t = VEC[tname]
        getters, setters = methods[dim]
        # getters, batched per result arity in chunks of 64
        for n in (2, 3, 4):
            gs = [g for g in getters if len(g) == n]
            for ci in range(0, len(gs), 64):
                chunk = gs[ci:ci + 64]
                code, lanes = draw_vec(t, "a")
                body = [code]
                rt = res_type(t, n)
                for g in chunk:
                    body.append(f"{{ let r: {rt.name} = a.{g}();")
                    for i, ch in enumerate(g):
                        body.append(f'  va!("{tname}::{g}[{i}]", r.{LET[i]}.bits({lanes[LET.index(ch)]}));')
                    body.append("}")
                hs.append(Harness(f"c16_{t.lname}_get{n}_{ci // 64}", "\n".join(body), backend="sat",
                                  desc=f"{tname}: {len(chunk)} {n}-letter swizzle getters, every result lane == named source lane (bits)",
                                  funcs=[f"{tname}::{g}" for g in chunk], site=f"{tname}::swizzle-get{n}"))
        # setters
        for ci in range(0, len(setters), 24):
            chunk = setters[ci:ci + 24]
            if not chunk:
                continue
            code, lanes = draw_vec(t, "a")
            body = [code]
            maxn = max(len(x) - 5 for x in chunk)
            vcode = {}
            for n in sorted({len(x) - 5 for x in chunk}):
                c2, l2 = draw_vec(res_type(t, n), f"v{n}")
                body.append(c2)
                vcode[n] = l2
            for st in chunk:
                letters = st[5:]
                n = len(letters)
                body.append(f"{{ let r: {t.name} = a.{st}(v{n});")
                for k in range(t.dim):
                    if LET[k] in letters:
                        body.append(f'  va!("{tname}::{st}[{k}]", r.{LET[k]}.bits({vcode[n][letters.index(LET[k])]}));')
                    else:
                        body.append(f'  va!("{tname}::{st}[{k}]keep", r.{LET[k]}.bits({lanes[k]}));')
                # read back / write back
                body.append(f"  let rb = r.{letters}();")
                for i in range(n):
                    body.append(f'  va!("{tname}::{st}.readback[{i}]", rb.{LET[i]}.bits({vcode[n][i]}));')
                body.append(f"  let wb = a.{st}(a.{letters}());")
                for k in range(t.dim):
                    body.append(f'  va!("{tname}::{st}.writeback[{k}]", wb.{LET[k]}.bits({lanes[k]}));')
                body.append("}")
            hs.append(Harness(f"c16_{t.lname}_set_{ci // 24}", "\n".join(body), backend="sat",
                              desc=f"{tname}: {len(chunk)} with_ setters replace exactly the named lanes; read-back and write-back",
                              funcs=[f"{tname}::{g}" for g in chunk], site=f"{tname}::swizzle-set"))
    return hs
