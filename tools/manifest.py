#!/usr/bin/env python3
"""Regenerates /verif/MANIFEST.json from the table below (keeps it valid at all times)."""
import json, os
VERIF = os.path.dirname(os.path.dirname(os.path.abspath(__file__)))
props = [json.loads(l) for l in open(os.path.join(VERIF, "properties.jsonl"))]

E1 = "Kani/CBMC bounded model checking of the compiled Rust (SAT: CaDiCaL; SMT: cvc5/z3 on CBMC's SMT2 dump), counterexamples replayed natively"
TB = ("trusts Kani 0.68's MIR->goto translation, CBMC 6.11's bit-precise encodings, CaDiCaL / cvc5 / z3, and the lane-wise stubs of the x86 intrinsics "
      "Kani has no model for (harness/common/support.rs); NEON/wasm32/core-simd back ends are not compiled; dev (overflow-checking) profile in the solver, dev+release in native replays")

CHECKS = {
    "C01": dict(text="every element-wise float operation of the 7 float vector types is compared, output lane by output lane, with the Rust primitive on that lane's operands, for ALL operand bit patterns, by bounded model checking of the compiled SSE2 and scalar-math builds; transcendental shims / fma / euclid are uninterpreted (lane wiring); float `%` is outside E1 (CBMC's model of fmod is not Rust's) ",
                design="4/C01", tech=E1),
    "C16": dict(text="every swizzle getter and with_ setter name found in the tree is executed symbolically on all lane bit patterns (Vec3A with an arbitrary hidden lane) in the SSE2 and scalar builds; result lane i must equal the lane the i-th letter names, bit for bit",
                design="4/C16", tech=E1),
}
CHECKS.update({
    "C13": dict(text="every operator / method of the 27 integer vector types found in the tree is compared lane by lane with the Rust primitive for ALL lane values (8- to 64-bit alike, via the SMT back end for multiplicative ops); checked_* None-ness; and, per panicking operation, a must-not-panic harness under 'no lane's primitive would panic' plus a must-panic harness under its negation (overflow-checking profile)",
                design="4/C13", tech=E1),
    "C14": dict(text="every as_* method and every From/TryFrom impl between vector types, arrays, tuples, masks and (vector, scalar) pairs found by scanning the tree is executed on fully symbolic source lanes and compared bit for bit with the primitive `as` / From / TryFrom of each lane",
                design="4/C14", tech=E1),
    "C15": dict(text="all five mask types with symbolic lanes (SIMD masks additionally with both reachable hidden-lane states): readers, constructors, & | ^ !, ==, Hash through a recording Hasher, test/set with a symbolic index (must-panic when out of range), BVec3A/BVec4A vs BVec3/BVec4 observational equality; cmp* of every numeric vector type vs the primitive comparison; select bit for bit",
                design="4/C15", tech=E1),
    "C17": dict(text="constructor x reader matrix on symbolic lanes for each vector type, Quat and DQuat, named constants, and a one-step write lemma from an arbitrary pre-state through every mutable path at a symbolic lane index, observed through every read path (inductive step for write histories of any length); Debug/Display text is not decided",
                design="4/C17", tech=E1),
    "C06": dict(text="for all 11 matrix/affine types: every accessor and constructor agrees on the column-major position of entry (r,c) bit for bit, from_diagonal, transpose, col_mut aliasing, minor constructors for every valid (i,j) and must-panic for invalid ones, with arbitrary hidden lanes in Mat3A/Affine3A columns; product laws are decided by E2 where built",
                design="4/C06", tech=E1),
})
CHECKS.update({
    "C08": dict(text="two-run non-interference on the compiled SSE2 build: every public method, operator and conversion that touches Vec3A / Mat3A / Affine3A / BVec3A is executed twice on operands with identical visible lanes and independent arbitrary hidden lanes; all visible result components must be bit-identical. One step from arbitrary hidden content is the inductive step for compositions of any length",
                design="4/C08", tech=E1 + "; relational (two-run) harnesses, uninterpreted sqrt/transcendentals"),
    "C18": dict(text="every public method of the float vector, quaternion, matrix and affine types (signature-driven harness generation, ~1100 functions per configuration) is executed with all arguments unconstrained bit patterns and any-libm transcendental shims: no reachable panic, no failed bounds / pointer check; documented panics as must-panic / must-not-panic pairs: slice functions over exact-size objects for every length 0..N+4 (also: exactly the first N elements read/written, rest untouched), Index/IndexMut with symbolic index",
                design="4/C18", tech=E1),
})
E2T = "symbolic execution of the optimised LLVM IR of the glam kernels into SMT terms (IEEE operations read as exact real operations), identities decided by z3 (nlsat); translation validated against and counterexamples replayed on the native code"
E2N = ("trusts rustc's LLVM-IR emission for the kernels being the code that runs (the same build's cdylib is used for validation/replay), the IR interpreter (validated each run by evaluating every term DAG on random inputs and comparing bit for bit with the native kernel), z3 5.1; "
       "rounding, NaN/inf and signed zeros are outside mode R; " + TB)
CHECKS.update({
    "C03": dict(text="product, transpose, determinant, inverse, +, -, scalar scaling of all 7 matrix types: every output entry of the compiled kernel (SSE2 and scalar-math IR) is proved equal as a real function to the textbook definition (Leibniz determinant, adj/det, M*inverse(M) = I), with the integer-lattice exactness side condition; bit-precise SAT cross-check on the 2x2 lattice [-8,8]", design="4/C03", tech=E2T + "; " + E1, engine="E1+E2", note=E2N),
    "C04": dict(text="Hamilton product, conjugate, component-wise ops, normalize, and q*v = vector part of q (v,0) conj(q) for EVERY q with its consequences (length, associativity, undo, q ~ -q) proved on the compiled SSE2 and scalar kernels of Quat and DQuat; mul_vec3 == mul_vec3a on all inputs, and + - scalar* scalar/ neg equal to the IEEE primitive on every stored lane with rounding, conjugate bit for bit (E1)", design="4/C04", tech=E2T + "; " + E1, engine="E1+E2", note=E2N),
    "C05": dict(text="data-movement conversions between all matrix/affine representations bit for bit (E1, 80 harnesses); from_quat entries, action and composition laws, affine<->Mat4 laws, and matrix->quaternion->matrix = identity on all four branches (path conditions taken from the IR) in mode R", design="4/C05", tech=E2T + "; " + E1, engine="E1+E2", note=E2N),
    "C09": dict(text="from_rotation_x/y/z, from_angle, from_axis_angle (= Rodrigues, proper rotation), from_scaled_axis and all 24 EulerRot orders on Mat3/Mat3A/Mat4/DMat3/DMat4/Quat/DQuat/Affine forms proved equal to the documented products with sin/cos as constrained symbols; the extraction direction (to_euler / to_axis_angle rebuild, gimbal-lock error growth) is NOT decided", design="4/C09", tech=E2T, engine="E2", note=E2N),
    "C10": dict(text="every TRS constructor on the six transform types and both widths equals translation*rotation*scale; to_scale_rotation_translation decided in two steps (structure of the real code on arbitrary matrices + sign-bookkeeping lemmas, the branch bodies being C05's); 2D decomposition recomposes exactly with the atan2 axiom; translation == last column bit for bit (E1)", design="4/C10", tech=E2T + "; " + E1, engine="E1+E2", note=E2N),
    "C11": dict(text="look_to/look_at (rigid, eye->origin, dir->-Z/+Z, up into +Y half-plane) and all perspective/orthographic constructors (clip w, near/far depths incl. infinite and reverse forms, fov/aspect/box planes -> +-1), project_point3 = xyz/w, proved on the compiled kernels in mode R", design="4/C11", tech=E2T, engine="E2", note=E2N),
    "C12": dict(text="lerp (affine blend, exact endpoints E1), midpoint, move_towards, clamp_length* (2- and 3-component types), any_orthogonal/orthonormal vector/pair, from_rotation_arc_colinear/_2d structure in mode R; SSE2 Quat::slerp restated against the sin-weighted blend with the hemisphere flip (E1, uninterpreted sine kernel); Vec3A move_towards / clamp_length* / midpoint == the Vec3 forms lane by lane for all inputs (E1, shared uninterpreted sqrt with sound facts). NOT decided: arc-length law, quaternion lerp/slerp/from_rotation_arc as mode-R identities (nlsat unknown), rotate_towards, vector slerp", design="4/C12", tech=E2T + "; " + E1, engine="E1+E2", note=E2N),
})
CHECKS.update({
    "C02": dict(text="dot, cross, perp_dot, length(_squared/_recip), distance(_squared), element_sum/product, project/reject (2- and 3-component), reflect, refract, normalize of all 7 float vector types proved equal to the textbook formulas on the compiled kernels (mode R; Vec3A with arbitrary hidden lane); normalize-family discrete outcomes (None / fallback / zero / (X,0) exactly when !(1/len finite and > 0)) on all inputs (E1). All 'within a few eps' clauses and arccos accuracy are NOT decided", design="4/C02", tech=E2T + "; " + E1, engine="E1+E2", note=E2N),
    "C19": dict(text="serde through an exact in-memory token Serializer/Deserializer for every vector, mask, quaternion, matrix and affine type (N scalars in lane/column-major order, round trip bit-identical, every other length 0..N+2 rejected), identical reference for the SSE2 and scalar-math builds; bytemuck Pod types: no padding, element order, cast identity, zeroed; mint identity and row/column semantics. rkyv and JSON text NOT decided", design="4/C19", tech=E1),
    "C20": dict(text="differential harnesses between /repo and a copy of the same tree built with glam-assert: for every asserting method the two builds return bit-identical results whenever the asserting build does not panic; must-panic / must-not-panic pairs for the documented preconditions on the asserting build. Numeric closure of chains (rounding stays inside the 2e-4 tolerances) NOT decided", design="4/C20", tech=E1 + "; two-tree differential"),
})
CHECKS.update({
    "C07": dict(text="target-feature independence at 0 bits: ~560 kernels over the public API of the SIMD-backed and plain types are built for default SSE2 and for +fma,+avx2 (thorough: +sse4.1) and their optimised IR executed symbolically with every IEEE and bit-level operation uninterpreted; path conditions and output DAGs must be identical, differences are replayed natively on both builds. SIMD vs scalar-math equality follows from both builds being proved equal to the same per-lane primitive / real-function references in C01-C06, C09-C17. Debug/Display identity and core-simd NOT decided", design="4/C07", tech="symbolic execution of the optimised LLVM IR of two builds with all operations uninterpreted (mode U), structural / z3 QF_UF comparison of the operation DAGs, native differential replay", engine="E2", note=E2N),
})
CHECKS["C01"]["text"] += "; float `%` is decided on the optimised IR: each output lane must be LLVM's frem of that lane's operands (mode U), natively replayed otherwise"
CHECKS["C01"]["engine"] = "E1+E2"
CHECKS["C06"]["engine"] = "E1+E2"
NA = {}


def main():
    checks = []
    for p in props:
        pid = p["id"]
        if pid not in CHECKS:
            continue
        c = CHECKS[pid]
        checks.append(dict(property_id=pid, quick_cmd=f"./check {pid} --tier quick", thorough_cmd=f"./check {pid} --tier thorough",
                           evidence_file=f"/verif/evidence/{pid}.json", replay_cmd_template=f"./check {pid} --replay {{path}}",
                           engine=c.get("engine", "E1"),
                           level_claimed=dict(category="model_checking", text=c["text"], design_ref="DESIGN.md section " + c["design"]),
                           level_note=c.get("note", TB), technique=c["tech"]))
    na = [dict(property_id=p["id"], reason=NA.get(p["id"], "check not built yet (work in progress; see DESIGN.md section 4 for the plan)"))
          for p in props if p["id"] not in CHECKS]
    m = dict(version=1, setup_cmd="true",
             hooks=dict(guard="glam_verif", enable="no hooks are needed: every observation point is a Kani stub or an out-of-tree harness crate with a path dependency on /repo",
                        baseline_off_cmd="cd /repo && cargo test --workspace --no-fail-fast --offline", source_commits=[], add_only=True),
             engines=[dict(name="E1", path="/verif/lib/kb.py", serves_properties=sorted(k for k, v in CHECKS.items() if v.get("engine", "E1") in ("E1", "E1+E2")),
                           kind_free_text="Kani 0.68 -> CBMC 6.11 bit-precise bounded model checking of the compiled Rust; CaDiCaL, or SMT2 dump -> cvc5 / z3"),
                      dict(name="E2", path="/verif/e2", serves_properties=sorted(k for k, v in CHECKS.items() if "E2" in v.get("engine", "")),
                           kind_free_text="symbolic execution of the optimised LLVM IR of glam kernels into SMT terms (reals / uninterpreted IEEE ops), z3 / cvc5")],
             checks=checks, notes="see DESIGN.md; known findings in known_findings.txt", not_applicable=na)
    json.dump(m, open(os.path.join(VERIF, "MANIFEST.json"), "w"), indent=1)
    print("checks:", [c["property_id"] for c in checks], "not_applicable:", len(na))


if __name__ == "__main__":
    main()
