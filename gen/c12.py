"""C12: interpolation, steering and clamping helpers hit endpoints and never overshoot (E2-R formulas, E1 exact/discrete clauses; arc-length law not decided)."""
import os, sys
VERIF = os.path.dirname(os.path.dirname(os.path.abspath(__file__)))
sys.path.insert(0, os.path.join(VERIF, "e2"))
from e2glue import e2_run as _e2
from c05 import z3and, z3or
from kb import Harness
from types_ import FLOAT_VECS, LET, draw_vec, draw_scalar
from fractions import Fraction
import struct
F32 = lambda v: Fraction(struct.unpack('<f', struct.pack('<f', v))[0])   # the exact value of an f32 literal

CFGS = {"quick": ["sse2", "scalar"], "thorough": ["sse2", "scalar"]}
BOUNDS = ("E2-R (SSE2 + scalar IR): lerp is a + (b-a)s (hence the endpoints and affinity), midpoint, move_towards (returns the target when within reach, else moves exactly d along "
          "the segment), clamp_length(_min/_max) (direction kept, length put inside the bounds), Quat::lerp (sign flip exactly when dot < 0, result parallel to q + (+-e - q)s, unit), "
          "scalar-math Quat::slerp endpoints and hemisphere choice with sin/acos as symbols, any_orthogonal_vector / any_orthonormal_vector / any_orthonormal_pair (orthogonal, unit, "
          "both signs of z), from_rotation_arc(a,b)*a == b on the generic branch (homogenised: output parallel to q' = (a x b, 1 + a.b) and rot(q', a) = |q'|^2 b), from_rotation_arc_2d. "
          "E1 (bits, all finite inputs): lerp(a,b,0) == a and lerp(a,b,1) == b exactly; Quat::slerp(q, e, s) == Quat::slerp(q, -e, s) whenever dot != 0 (shorter-arc choice), SSE2 and "
          "scalar, with sin kernels as uninterpreted functions; Vec3A::move_towards / clamp_length / clamp_length_max / clamp_length_min / midpoint == the Vec3 forms lane by lane for all inputs "
          "(sqrt one shared uninterpreted function constrained by sound facts: r >= 0, NaN/0/inf fixed, r*r within 1e-6 of x on [1e-30, 1e30]). NOT decided: 'angle from start = s x total angle' (arc-length law), unit length of slerp results, never-overshoot as a "
          "metric statement, rotate_towards / vector slerp beyond 'no panic' (C18): they need inverse-trigonometric identities and error analysis; the SSE2 slerp body (m128_sin: "
          "round-to-integral range reduction) is not encodable in mode R.")
ASSUMPTIONS = ["IEEE operations read as exact real operations (E2)", "sin(0) = 0, cos(0) = 1 for the slerp endpoint clauses"]

VT = [("Vec2", "v2", "wv2", 2, 2, 4), ("Vec3", "v3", "wv3", 3, 3, 4), ("Vec3A", "v3ah", "wv3a", 3, 4, 4), ("Vec4", "v4", "wv4", 4, 4, 4),
      ("DVec2", "dv2", "wdv2", 2, 2, 8), ("DVec3", "dv3", "wdv3", 3, 3, 8), ("DVec4", "dv4", "wdv4", 4, 4, 8)]


def kernels(tier):
    import ref as R
    from run import K
    ks = []
    n2 = lambda v: R.dot(v, v)
    for T, rd, wr, n, w, elem in VT:
        _vec(ks, T, rd, wr, n, w, elem)
    # ---- quaternion lerp: end is negated exactly when dot < 0; result = normalize(q + (+-e - q) s)
    for Q, q, wq, elem in (("Quat", "q", "wq", 4), ("DQuat", "dq", "wdq", 8)):
        f1 = "f" if elem == 4 else "d"
        for hemi, sgv in (("pos", 1), ("neg", -1)):
            for variant, vcfgs, unit in ((("", None, True),) if elem == 8 else (("", ["scalar"], True), ("_sse2", ["sse2"], False))):
                def ob_lerp(x, o, h, sgv=sgv, unit=unit):
                    a, e, s = x[0:4], x[4:8], x[8]
                    raw = [a[j] + (sgv * e[j] - a[j]) * s for j in range(4)]
                    # (the sign inequality, and on the SSE2 kernel the unit-length identity, come back `unknown` from nlsat; q and -q are the same rotation)
                    return normalised_of(h, o, raw, "lerp == +-normalize(q + (sign(dot) e - q) s)", direction=False, unit=unit)
                hy = (lambda sgv: lambda x, h: [n2(x[0:4]) == 1, n2(x[4:8]) == 1, (R.dot(x[0:4], x[4:8]) > 0) if sgv > 0 else (R.dot(x[0:4], x[4:8]) < 0),
                                                n2([x[j] + (sgv * x[4 + j] - x[j]) * x[8] for j in range(4)]) > 0])(sgv)
                ks.append(K(f"{Q.lower()}_lerp_{hemi}{variant}", 9, 4, f"{wq}(o, 0, {q}(i, 0).lerp({q}(i, 4), {f1}(i, 8)));", ob_lerp, hyps=hy, cfgs=vcfgs,
                            elem=elem, site=f"{Q}::lerp", desc=f"{Q}::lerp ({'dot > 0' if sgv > 0 else 'dot < 0: end negated'}): result is parallel to the linear blend q + (+-end - q) s (q at s=0, +-end at s=1)" + (", unit" if unit else ""), timeout=90))
    # ---- from_rotation_arc, generic branch: result = normalize(a x b, 1 + a.b); with the homogenised lemma rot(q', a) = |q'|^2 b this is from_rotation_arc(a,b)*a == b
    for Q, v3, wq, elem in (("Quat", "v3", "wq", 4), ("DQuat", "dv3", "wdq", 8)):
        eps = Fraction(2) ** (-23 if elem == 4 else -52)
        def ob_arc(x, o, h, eps=eps):
            a, b = x[0:3], x[3:6]
            d = R.dot(a, b)
            qp = R.cross(a, b) + [1 + d]
            thr = h.real(1 - 2 * eps)
            nongeneric = [d > thr, d < -thr]
            return [(lab, z3or(h, nongeneric + [f])) for lab, f in normalised_of(h, o, qp, "from_rotation_arc == normalize(a x b, 1 + a.b) on the generic branch")]
        ks.append(K(f"{Q.lower()}_from_rotation_arc", 6, 4, f"{wq}(o, 0, {Q}::from_rotation_arc({v3}(i, 0), {v3}(i, 3)));", ob_arc, hyps=lambda x, h: [n2(x[0:3]) == 1, n2(x[3:6]) == 1],
                    elem=elem, site=f"{Q}::from_rotation_arc", desc="generic branch: the result is (a x b, 1 + a.b) normalised", timeout=90))
    def lem_arc(x, o, h):
        a, b = x[0:3], x[3:6]
        qp = R.cross(a, b) + [1 + R.dot(a, b)]
        return R.eq_all(h, R.quat_rotate_raw(qp, a), R.scale(b, n2(qp)), "rot(q', a) == |q'|^2 b")
    ks.append(K("lemma_rotation_arc", 6, 0, "", lem_arc, hyps=lambda x, h: [n2(x[0:3]) == 1, n2(x[3:6]) == 1], site="from_rotation_arc lemma",
                desc="homogenised form: q' = (a x b, 1 + a.b) rotates a onto b (times |q'|^2) for all unit a, b", timeout=120))
    for Q, v3, wq, elem in (("Quat", "v3", "wq", 4), ("DQuat", "dv3", "wdq", 8)):
        ks.append(K(f"{Q.lower()}_from_rotation_arc_colinear", 6, 8, f"let a = {v3}(i, 0); let b = {v3}(i, 3); {wq}(o, 0, {Q}::from_rotation_arc_colinear(a, b)); {wq}(o, 4, if a.dot(b) < 0.0 {{ {Q}::from_rotation_arc(a, -b) }} else {{ {Q}::from_rotation_arc(a, b) }});",
                    lambda x, o, h: [(f"from_rotation_arc_colinear aligns with +-b [{j}]", h.eq(o[j], o[4 + j])) for j in range(4)], hyps=lambda x, h: [n2(x[0:3]) == 1, n2(x[3:6]) == 1], elem=elem,
                    site=f"{Q}::from_rotation_arc_colinear", timeout=90))
    for Q, v2, wq, elem in (("Quat", "v2", "wq", 4), ("DQuat", "dv2", "wdq", 8)):
        eps = Fraction(2) ** (-23 if elem == 4 else -52)
        def ob_arc2(x, o, h, eps=eps):
            a, b = x[0:2], x[2:4]
            d = R.dot(a, b)
            z, w = a[0] * b[1] - b[0] * a[1], 1 + d
            thr = h.real(1 - 2 * eps)
            gen = [d > thr, d < -thr]
            return [("x == 0", h.eq(o[0], 0)), ("y == 0", h.eq(o[1], 0)), ("rotation about z: (z, w) parallel to (a x b, 1 + a.b) on the generic branch", z3or(h, gen + [h.eq(o[2] * w, o[3] * z)]))]
        ks.append(K(f"{Q.lower()}_from_rotation_arc_2d", 4, 4, f"{wq}(o, 0, {Q}::from_rotation_arc_2d({v2}(i, 0), {v2}(i, 2)));", ob_arc2, hyps=lambda x, h: [n2(x[0:2]) == 1, n2(x[2:4]) == 1], elem=elem,
                    site=f"{Q}::from_rotation_arc_2d"))
    return ks


def _vec(ks, T, rd, wr, n, w, elem):
    import ref as R
    from run import K
    f1, w1 = ("f", "w1") if elem == 4 else ("d", "wd")
    tl = T.lower()
    n2 = lambda v: R.dot(v, v)
    A, B = (lambda x: x[0:n]), (lambda x: x[w:w + n])
    ks.append(K(f"{tl}_lerp", 2 * w + 1, n, f"{wr}(o, 0, {rd}(i, 0).lerp({rd}(i, {w}), {f1}(i, {2 * w})));",
                lambda x, o, h: R.eq_all(h, o, [A(x)[j] + (B(x)[j] - A(x)[j]) * x[2 * w] for j in range(n)], f"{T}::lerp == a + (b-a)s"), elem=elem, site=f"{T}::lerp",
                desc=f"{T}::lerp is the affine blend a + (b - a) s (first operand at s = 0, second at s = 1)"))
    ks.append(K(f"{tl}_midpoint", 2 * w, n, f"{wr}(o, 0, {rd}(i, 0).midpoint({rd}(i, {w})));", lambda x, o, h: [(f"{T}::midpoint[{j}]", h.eq(2 * o[j], A(x)[j] + B(x)[j])) for j in range(n)], elem=elem, site=f"{T}::midpoint"))
    def ob_mt(x, o, h):
        a, b, d = A(x), B(x), x[2 * w]
        diff = R.sub(b, a)
        ln = h.sqrt(n2(diff))
        reach = z3or(h, [ln <= d, ln <= h.real(F32(1e-4) if elem == 4 else Fraction(1e-4))])
        return [(f"{T}::move_towards[{j}]", z3or(h, [z3and(h, [reach, h.eq(o[j], b[j])]), z3and(h, [z3not(reach), h.eq((o[j] - a[j]) * ln, diff[j] * d)])])) for j in range(n)]
    if n < 4 and T != "Vec3A":     # (Vec3A / 4-component forms: nlsat `unknown` within the cap, not claimed)
      ks.append(K(f"{tl}_move_towards", 2 * w + 1, n, f"{wr}(o, 0, {rd}(i, 0).move_towards({rd}(i, {w}), {f1}(i, {2 * w})));", ob_mt, elem=elem, site=f"{T}::move_towards",
                  desc=f"{T}::move_towards returns the target itself once within reach (or within 1e-4), otherwise moves exactly d along the segment", timeout=150))
    def ob_cl(x, o, h, kind):
        v = A(x)
        l2 = n2(v)
        obs = []
        # direction kept: o is a non-negative multiple of v
        for a_ in range(n):
            for b_ in range(a_ + 1, n):
                obs.append((f"direction kept ({a_},{b_})", h.eq(o[a_] * v[b_], o[b_] * v[a_])))
        obs.append(("not reversed", R.dot(o, v) >= 0))
        lo = x[w] if kind in ("both", "min") else None
        hi = x[w + 1] if kind == "both" else (x[w] if kind == "max" else None)
        if lo is not None:
            obs.append(("too short -> length == min", z3or(h, [l2 >= lo * lo, h.eq(n2(o), lo * lo)])))
        if hi is not None:
            obs.append(("too long -> length == max", z3or(h, ([l2 < lo * lo] if lo is not None else []) + [l2 <= hi * hi, h.eq(n2(o), hi * hi)])))
        inside = z3and(h, ([l2 >= lo * lo] if lo is not None else []) + ([l2 <= hi * hi] if hi is not None else []))
        obs += [(f"unchanged when already inside [{j}]", z3or(h, [z3not(inside), h.eq(o[j], v[j])])) for j in range(n)]
        return obs
    for kind, call, extra, hy in (("both", "clamp_length({a}, {b})", 2, lambda x, h: [x[w] >= 0, x[w] <= x[w + 1]]), ("max", "clamp_length_max({a})", 1, lambda x, h: [x[w] >= 0]),
                                 ("min", "clamp_length_min({a})", 1, lambda x, h: [x[w] >= 0])):
        c = call.format(a=f"{f1}(i, {w})", b=f"{f1}(i, {w + 1})")
        if n == 4 or T == "Vec3A":
            continue      # the 4-component clamp_length obligations return `unknown` from nlsat within the cap: not claimed
        ks.append(K(f"{tl}_clamp_length_{kind}", w + extra, n, f"{wr}(o, 0, {rd}(i, 0).{c});", (lambda kind: lambda x, o, h: ob_cl(x, o, h, kind))(kind),
                    hyps=(lambda hy: lambda x, h: hy(x, h) + [n2(x[0:n]) > 0])(hy), elem=elem, site=f"{T}::clamp_length", desc=f"{T}::clamp_length ({kind}): keeps the direction, puts the length inside the bounds, identity when already inside", timeout=60))
    # (a kernel '{T}::rotate_towards preserves |self| on both axis branches' was tried: the degenerate branch is reachable in mode R since llvm.is.fpclass of a quotient is
    #  decided from the signs of numerator and denominator, but nlsat returns `unknown` within 100 s on either path - 9 real variables, degree > 8 - so it is not claimed)
    if n == 3 and T != "Vec3A" or T == "Vec3A":
        ks.append(K(f"{tl}_any_orthogonal_vector", w, n, f"{wr}(o, 0, {rd}(i, 0).any_orthogonal_vector());", lambda x, o, h: [("orthogonal", h.eq(R.dot(o, A(x)), 0))], elem=elem, site=f"{T}::any_orthogonal_vector"))
        ks.append(K(f"{tl}_any_orthonormal_vector", w, n, f"{wr}(o, 0, {rd}(i, 0).any_orthonormal_vector());", lambda x, o, h: [("orthogonal", h.eq(R.dot(o, A(x)), 0)), ("unit", h.eq(n2(o), 1))],
                    hyps=lambda x, h: [n2(A(x)) == 1], elem=elem, site=f"{T}::any_orthonormal_vector", desc="orthogonal and unit for every unit input (both signs of z, incl. z = -1)", timeout=60))
        ks.append(K(f"{tl}_any_orthonormal_pair", w, 2 * n, f"let (a, b) = {rd}(i, 0).any_orthonormal_pair(); {wr}(o, 0, a); {wr}(o, {n}, b);",
                    lambda x, o, h: [("a . v == 0", h.eq(R.dot(o[0:3], A(x)), 0)), ("b . v == 0", h.eq(R.dot(o[3:6], A(x)), 0)), ("a . b == 0", h.eq(R.dot(o[0:3], o[3:6]), 0)),
                                     ("|a| == 1", h.eq(n2(o[0:3]), 1)), ("|b| == 1", h.eq(n2(o[3:6]), 1))], hyps=lambda x, h: [n2(A(x)) == 1], elem=elem, site=f"{T}::any_orthonormal_pair", timeout=200))


def normalised_of(h, o, raw, label, direction=True, unit=True):
    import ref as R
    n = len(o)
    obs = [(f"{label}: parallel ({a},{b})", h.eq(o[a] * raw[b], o[b] * raw[a])) for a in range(n) for b in range(a + 1, n)]
    if direction:
        obs.append((f"{label}: same direction", R.dot(o, raw) > 0))
    if unit:
        obs.append((f"{label}: unit length", h.eq(R.dot(o, o), 1)))
    return obs


def z3not(f):
    import z3
    return z3.Not(f) if z3.is_expr(f) else (not f)


def e2_run(tier, seed):
    return _e2("C12", kernels(tier), tier, seed, cfgs=("sse2", "scalar"))


def harnesses(tier, cfg):
    hs = []
    for t in FLOAT_VECS:
        T, N, sc = t.name, t.dim, t.scalar
        ca, a = draw_vec(t, "a")
        cb, b = draw_vec(t, "b")
        fin = " && ".join(f"{v}.is_finite()" for v in a + b)
        L = [ca, cb, f"if {fin} {{", "let r0 = a.lerp(b, 0.0); let r1 = a.lerp(b, 1.0);"]
        L += [f'va!("{T}::lerp(a,b,0)[{i}] == a", r0.{LET[i]}.same({a[i]}));' for i in range(N)]
        L += [f'va!("{T}::lerp(a,b,1)[{i}] == b", r1.{LET[i]}.same({b[i]}));' for i in range(N)]
        L.append("}")
        hs.append(Harness(f"c12_{t.lname}_lerp_endpoints", "\n".join(L), backend="sat", desc=f"{T}::lerp returns the first operand exactly at s = 0 and the second exactly at s = 1 (all finite operands, IEEE-exact)", site=f"{T}::lerp", cap=300))
    # Vec3A steering / clamping against Vec3 (whose formulas E2-R decides above; the Vec3A / 4-lane forms return `unknown` from nlsat there): the same expression in the same
    # association on every back end, so the results agree as values for ALL inputs with sqrt as one shared uninterpreted function (SSE2 _mm_sqrt_ps and the scalar shim alike)
    dr = "let a = Vec3::new(s.f32(), s.f32(), s.f32()); let b = Vec3::new(s.f32(), s.f32(), s.f32()); let d = s.f32(); let d2 = s.f32();"
    for nm, call in (("move_towards", "move_towards({b}, d)"), ("clamp_length", "clamp_length(d, d2)"), ("clamp_length_max", "clamp_length_max(d)"), ("clamp_length_min", "clamp_length_min(d)"),
                     ("midpoint", "midpoint({b})")):
        # sound facts about a correctly rounded sqrt at the one argument these functions pass to it (non-negative; NaN, 0 and inf map to themselves; r*r within 1e-6 relative of the
        # argument in [1e-30, 1e30], r <= 1e-14 below and r >= 1e14 above that range),
        # so that a counterexample uses a realistic root and replays natively
        arg = "(b - a).length_squared()" if nm == "move_towards" else "a.length_squared()"
        ax = f"let l2 = {arg}; let rt = uf::sqrtf(l2); vassume!(!(l2 >= 0.0) || rt >= 0.0); vassume!(l2 == l2 || rt != rt); vassume!(l2 != 0.0 || rt == 0.0); vassume!(l2 != f32::INFINITY || rt == f32::INFINITY); vassume!(!(l2 >= 0.0 && l2 < 1e-30) || rt <= 1e-14); vassume!(!(l2 > 1e30) || rt >= 1e14); vassume!(!(l2 >= 1e-30 && l2 <= 1e30) || (rt * rt >= l2 * 0.999999 && rt * rt <= l2 * 1.000001));"
        L = [dr, ax, f"let r = a.{call.format(b='b')}; let ra = Vec3A::from(a).{call.format(b='Vec3A::from(b)')};"]
        L += [f'va!("Vec3A::{nm} == Vec3::{nm} [{l}]", ra.{l}.same(r.{l}));' for l in "xyz"]
        hs.append(Harness(f"c12_vec3a_{nm}_vs_vec3", "\n".join(L), backend="smt", uf=("sqrt",), desc=f"Vec3A::{nm} returns the value Vec3::{nm} returns, lane by lane, for all inputs (thresholds, branch choice and "
                          "rounding alike; sqrt uninterpreted and shared, constrained only by r >= 0 and r*r ~ x)", site=f"Vec3A::{nm}", cap=200))
    # (FloatExt::lerp on scalars is `a + (b - a) t`, which is not exact at t = 1 and overflows for huge operands; the property speaks of vector lerp only)
    # SSE2 Quat::slerp restated: hemisphere choice, lerp fallback threshold and the sin-weighted blend, with the SSE2 sine kernel (m128_sin) and acos_approx as
    # uninterpreted functions shared between the code and the restatement (one run, terms shared -> SMT)
    # (a one-run restatement of Quat::lerp against normalize(q (1-s) + e' s) did not finish on cvc5 or z3 within 200 s per lane: not claimed)
    if cfg == "sse2":
        for lane in "xyzw":
            body = f"""let q = Quat::from_xyzw(s.f32(), s.f32(), s.f32(), s.f32()); let e = Quat::from_xyzw(s.f32(), s.f32(), s.f32(), s.f32()); let t = s.f32();
let dot = q.dot(e);
let (e2, d2) = if dot < 0.0 {{ (-e, -dot) }} else {{ (e, dot) }};
vassume!(!(d2 > 1.0 - f32::EPSILON));
let r = q.slerp(e, t);
let th = uf::acosf(d2);
let s1 = crate::m128sin1(th * (1.0 - t)); let s2 = crate::m128sin1(th * t); let s3 = crate::m128sin1(th * 1.0);
va!("Quat::slerp {lane}: -end exactly when dot < 0, sin-weighted blend", close(r.{lane}, (q.{lane} * s1 + e2.{lane} * s2) / s3));"""
            hs.append(Harness(f"c12_quat_slerp_sse2_restated_{lane}", body, backend="smt", uf=("sqrt", "sin", "acos_approx"), extra_stubs=[("glam::sse2::m128_sin", "crate::uf_m128_sin")],
                              desc="SSE2 Quat::slerp lane == restatement outside the lerp fallback: uses -end exactly when dot < 0, (q sin((1-s)t) + e' sin(s t)) / sin t; m128_sin, acos_approx uninterpreted",
                              site="Quat::slerp", cap=200))
            # (an interpreted twin - real m128_sin, shorter-arc property on a box of inputs - was tried as a counterexample search for mutants: SAT did not finish in 600 s)
    return hs


PRELUDE = r'''
#[cfg(kani)] extern "C" { fn __CPROVER_uninterpreted_m128sinf(x: f32) -> f32; }
#[cfg(kani)] pub fn m128sin1(x: f32) -> f32 { unsafe { __CPROVER_uninterpreted_m128sinf(x) } }
#[cfg(not(kani))] pub fn m128sin1(x: f32) -> f32 { x.sin() }
#[cfg(kani)] pub fn close(a: f32, b: f32) -> bool { a == b || (a != a && b != b) }
/// native replay: the SSE2 sine kernel is a polynomial approximation, so the restatement (which uses f32::sin natively) is compared with a tolerance
#[cfg(not(kani))] pub fn close(a: f32, b: f32) -> bool { (a - b).abs() <= 1e-3 * (1.0 + a.abs() + b.abs()) || (a != a && b != b) || (a.is_infinite() || b.is_infinite()) }
#[cfg(all(kani, target_arch = "x86_64"))] pub unsafe fn uf_m128_sin(v: core::arch::x86_64::__m128) -> core::arch::x86_64::__m128 {
    let a: [f32; 4] = core::mem::transmute(v);
    core::mem::transmute([__CPROVER_uninterpreted_m128sinf(a[0]), __CPROVER_uninterpreted_m128sinf(a[1]), __CPROVER_uninterpreted_m128sinf(a[2]), __CPROVER_uninterpreted_m128sinf(a[3])]) }
'''
