"""Textbook reference formulas over any ring (z3 reals or Python floats). Matrices are lists of columns: M[c][r] (glam's column-major layout)."""
from itertools import permutations


def dot(a, b):
    s = a[0] * b[0]
    for x, y in zip(a[1:], b[1:]):
        s = s + x * y
    return s


def cross(a, b):
    return [a[1] * b[2] - a[2] * b[1], a[2] * b[0] - a[0] * b[2], a[0] * b[1] - a[1] * b[0]]


def add(a, b):
    return [x + y for x, y in zip(a, b)]


def sub(a, b):
    return [x - y for x, y in zip(a, b)]


def scale(a, k):
    return [x * k for x in a]


def cols(x, base, ncol, nrow):
    return [[x[base + c * nrow + r] for r in range(nrow)] for c in range(ncol)]


def flat(M):
    return [e for c in M for e in c]


def matvec(M, v):
    n = len(M[0])
    return [sum_((M[c][r] * v[c] for c in range(len(M)))) for r in range(n)]


def sum_(it):
    it = list(it)
    s = it[0]
    for x in it[1:]:
        s = s + x
    return s


def matmul(A, B):
    """(A*B) as list of columns"""
    return [matvec(A, bc) for bc in B]


def transpose(M):
    return [[M[c][r] for c in range(len(M))] for r in range(len(M[0]))]


def perm_sign(p):
    s, p = 1, list(p)
    for i in range(len(p)):
        while p[i] != i:
            j = p[i]
            p[i], p[j] = p[j], p[i]
            s = -s
    return s


def det(M):
    """Leibniz formula"""
    n = len(M)
    total = None
    for p in permutations(range(n)):
        term = M[0][p[0]]
        for c in range(1, n):
            term = term * M[c][p[c]]
        term = term if perm_sign(p) > 0 else -term
        total = term if total is None else total + term
    return total


def minor(M, i, j):
    """drop column i and row j"""
    return [[M[c][r] for r in range(len(M[0])) if r != j] for c in range(len(M)) if c != i]


def adjugate(M):
    """adj(M) as list of columns: adj[c][r] = cofactor of entry (row c, col r) = (-1)^(r+c) * det(M without column r ... ) transposed"""
    n = len(M)
    if n == 1:
        return [[1]]
    A = [[None] * n for _ in range(n)]
    for c in range(n):          # column index of adj
        for r in range(n):      # row index of adj
            # adj(r, c) = (-1)^(r+c) * det(M with row c and column r removed)
            mm = minor(M, r, c)
            d = det(mm) if n > 2 else mm[0][0]
            A[c][r] = d if (r + c) % 2 == 0 else -d
    return A


def identity(n, one=1, zero=0):
    return [[one if r == c else zero for r in range(n)] for c in range(n)]


def quat_mul(q, p):
    """Hamilton product, components (x, y, z, w)"""
    x1, y1, z1, w1 = q
    x2, y2, z2, w2 = p
    return [w1 * x2 + x1 * w2 + y1 * z2 - z1 * y2,
            w1 * y2 - x1 * z2 + y1 * w2 + z1 * x2,
            w1 * z2 + x1 * y2 - y1 * x2 + z1 * w2,
            w1 * w2 - x1 * x2 - y1 * y2 - z1 * z2]


def quat_conj(q):
    return [-q[0], -q[1], -q[2], q[3]]


def quat_rotate_raw(q, v):
    """vector part of q (v,0) conj(q)  (equals |q|^2 times the rotated vector)"""
    r = quat_mul(quat_mul(q, [v[0], v[1], v[2], 0 * v[0]]), quat_conj(q))
    return r[:3]


def quat_to_mat3(q):
    x, y, z, w = q
    return [[1 - 2 * (y * y + z * z), 2 * (x * y + w * z), 2 * (x * z - w * y)],
            [2 * (x * y - w * z), 1 - 2 * (x * x + z * z), 2 * (y * z + w * x)],
            [2 * (x * z + w * y), 2 * (y * z - w * x), 1 - 2 * (x * x + y * y)]]


def rot_x(s, c):
    return [[1, 0, 0], [0, c, s], [0, -s, c]]


def rot_y(s, c):
    return [[c, 0, -s], [0, 1, 0], [s, 0, c]]


def rot_z(s, c):
    return [[c, s, 0], [-s, c, 0], [0, 0, 1]]


def rodrigues(a, s, c):
    """rotation by angle (sin s, cos c) about unit axis a, as list of columns"""
    x, y, z = a
    t = 1 - c
    return [[t * x * x + c, t * x * y + s * z, t * x * z - s * y],
            [t * x * y - s * z, t * y * y + c, t * y * z + s * x],
            [t * x * z + s * y, t * y * z - s * x, t * z * z + c]]


def embed4(M3, t=None, zero=0, one=1):
    """3x3 (+ translation) -> 4x4 homogeneous"""
    t = t or [zero, zero, zero]
    return [[M3[0][0], M3[0][1], M3[0][2], zero], [M3[1][0], M3[1][1], M3[1][2], zero], [M3[2][0], M3[2][1], M3[2][2], zero], [t[0], t[1], t[2], one]]


def eq_all(h, got, want, label):
    return [(f"{label}[{i}]", h.eq(g, w)) for i, (g, w) in enumerate(zip(got, want))]
