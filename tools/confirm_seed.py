#!/usr/bin/env python3
"""Confirms a seeded mutation in a scratch worktree: suite passes with it, demo fails with it and passes without it.
usage: confirm_seed.py <seed-id> <patch.diff> <demo.rs> [--features scalar-math]
Writes /tmp/mut/confirm/<seed-id>.json ; the scratch worktree is removed afterwards."""
import sys, os, subprocess, json, shutil, re, time

sid, patch, demo = sys.argv[1:4]
feat = sys.argv[4:]   # e.g. --features scalar-math  (for the demo run)
wt = f"/tmp/seedwt/{sid}"
os.makedirs("/tmp/seedwt", exist_ok=True)
os.makedirs("/tmp/mut/confirm", exist_ok=True)
subprocess.run(["git", "-C", "/repo", "worktree", "remove", "--force", wt], capture_output=True)
subprocess.run(["git", "-C", "/repo", "worktree", "add", "-q", "--detach", wt, "HEAD"], check=True)
env = dict(os.environ, CARGO_NET_OFFLINE="true", CARGO_TARGET_DIR="/tmp/seedwt/target")
res = dict(seed=sid, patch=patch, demo=demo)
try:
    dname = os.path.splitext(os.path.basename(demo))[0]

    def run_demo():
        shutil.copy(demo, os.path.join(wt, "tests", dname + ".rs"))
        r = subprocess.run(["cargo", "test", "--offline", "--test", dname] + feat, cwd=wt, env=env, capture_output=True, text=True)
        os.remove(os.path.join(wt, "tests", dname + ".rs"))
        return r.returncode, (r.stdout + r.stderr)[-600:]
    rc, out = run_demo()
    res["demo_clean_rc"] = rc
    r = subprocess.run(["git", "apply", patch], cwd=wt, capture_output=True, text=True)
    res["apply_rc"] = r.returncode
    r = subprocess.run(["cargo", "test", "--workspace", "--no-fail-fast", "--offline"], cwd=wt, env=env, capture_output=True, text=True)
    tot = sum(int(m) for m in re.findall(r"test result: \w+\. (\d+) passed", r.stdout))
    fail = sum(int(m) for m in re.findall(r"test result: \w+\. \d+ passed; (\d+) failed", r.stdout))
    res["suite_rc"], res["suite_passed"], res["suite_failed"] = r.returncode, tot, fail
    rc, out = run_demo()
    res["demo_mut_rc"], res["demo_mut_tail"] = rc, out[-300:]
    res["confirmed"] = (res["demo_clean_rc"] == 0 and res["apply_rc"] == 0 and res["suite_rc"] == 0 and fail == 0 and res["demo_mut_rc"] != 0)
finally:
    subprocess.run(["git", "-C", "/repo", "worktree", "remove", "--force", wt], capture_output=True)
json.dump(res, open(f"/tmp/mut/confirm/{sid}.json", "w"), indent=1)
print(json.dumps({k: v for k, v in res.items() if k != "demo_mut_tail"}))
