"""C18: only documented panics occur and no access goes out of bounds (builds without glam-assert)."""
import re
from kb import Harness, CFGS as KCFGS
from types_ import VEC, MATS, FLOAT_VECS, LET, SCALARS, draw_vec, draw_scalar, draw_mat, repo_read

CFGS = {"quick": ["sse2", "scalar", "sse2rel", "scalarrel"], "thorough": ["sse2", "scalar", "sse2rel", "scalarrel"]}
BOUNDS = ("every public method of the float vector, quaternion, matrix and affine types whose parameter types the generator can synthesise (listed as functions_encoded; "
          "skipped ones are listed under 'skipped'), with ALL arguments unconstrained bit patterns (zero, -0, subnormal, inf, NaN in every position included); "
          "sqrt / sin / cos / tan / atan2 / exp / powf / acos_approx are uninterpreted functions (any libm); slice functions: one harness per length 0..N+4 over an exact-size object; "
          "indices fully symbolic; overflow-checking dev profile in the solver for every method, and the slice-length and index harnesses repeated on a release-like code generation "
          "(configurations sse2rel / scalarrel: -C debug-assertions=off, so a guard that is only a debug assertion does not count; Kani keeps overflow checks on regardless); uninitialised-memory reads are not checked")
ASSUMPTIONS = ["CBMC pointer/bounds instrumentation (--pointer-check --bounds-check --pointer-primitive-check) stands for AddressSanitizer",
               "an uninterpreted function over-approximates every implementation of a transcendental shim"]
UF_ALL = ("sqrt", "sin", "sin_cos", "tan", "atan2", "exp", "powf", "acos_approx")
DOCUMENTED = {"from_slice", "write_to_slice", "from_cols_slice", "write_cols_to_slice", "col", "col_mut", "row", "from_mat3_minor", "from_mat3a_minor", "from_mat4_minor"}
EULER = ["ZYX", "ZXY", "YXZ", "YZX", "XYZ", "XZY", "ZYZ", "ZXZ", "YXY", "YZY", "XYX", "XZX"]


class QT:
    def __init__(self, name, scalar):
        self.name, self.scalar, self.lname = name, scalar, name.lower()

    def file(self, sse):
        if self.name == "Quat":
            return f"src/f32/{'sse2' if sse else 'scalar'}/quat.rs"
        return "src/f64/dquat.rs"


QUATS = {"Quat": QT("Quat", "f32"), "DQuat": QT("DQuat", "f64")}


def vec_file(t, sse):
    if t.name in ("Vec3A", "Vec4"):
        return f"src/f32/{'sse2' if sse else 'scalar'}/{t.lname}.rs"
    return f"src/{t.scalar}/{t.lname}.rs"


def split_params(p):
    out, depth, cur = [], 0, ""
    for ch in p:
        if ch in "([<":
            depth += 1
        if ch in ")]>":
            depth -= 1
        if ch == "," and depth == 0:
            out.append(cur.strip())
            cur = ""
        else:
            cur += ch
    if cur.strip():
        out.append(cur.strip())
    return out


class Drawer:
    sse = True

    def __init__(self, selfname):
        self.selfname, self.code, self.n = selfname, [], 0

    def fresh(self):
        self.n += 1
        return f"p{self.n}"

    def value(self, ty):
        """returns a Rust expression of type `ty` built from fresh symbolic inputs, or None if unsupported"""
        ty = ty.strip()
        if ty.startswith("crate::"):
            ty = ty[7:]
        if ty == "Self":
            ty = self.selfname
        if ty.startswith("&mut "):
            return None
        if ty.startswith("&"):
            v = self.value(ty[1:])
            return None if v is None else f"&{v}"
        v = self.fresh()
        if ty in SCALARS or ty == "bool":
            self.code.append(f"let {v} = s.{ty}();")
            return v
        if ty in VEC:
            self.code.append(draw_vec(VEC[ty], v)[0])
            return v
        if ty in MATS:
            self.code.append(draw_mat(MATS[ty], v)[0])
            return v
        if ty in QUATS:
            sc = QUATS[ty].scalar
            self.code.append(f"let {v} = {ty}::from_xyzw(s.{sc}(), s.{sc}(), s.{sc}(), s.{sc}());")
            return v
        if ty == "EulerRot":
            arms = " ".join(f"{i} => EulerRot::{n}," for i, n in enumerate(EULER)) + " ".join(f"{i + 12} => EulerRot::{n}Ex," for i, n in enumerate(EULER))
            self.code.append(f"let {v}k = s.u8() % 24; let {v} = match {v}k {{ {arms} _ => EulerRot::XYZ }};")
            return v
        if ty == "BVec4A" and self.selfname == "Vec4" and not Drawer.sse:
            ty = "BVec4"   # scalar-math: Vec4's mask type is BVec4 (imported under the name BVec4A)
        m = re.fullmatch(r"BVec(\d)A?", ty)
        if m:
            n = int(m.group(1))
            self.code.append(f"let {v} = {ty}::new({', '.join('s.bool()' for _ in range(n))});")
            return v
        m = re.fullmatch(r"\[(\w+); (\d+)\]", ty)
        if m and m.group(1) in SCALARS:
            self.code.append(f"let {v} = [{', '.join(f's.{m.group(1)}()' for _ in range(int(m.group(2))))}];")
            return v
        m = re.fullmatch(r"\[\[(\w+); (\d+)\]; (\d+)\]", ty)
        if m and m.group(1) in SCALARS:
            inner = "[" + ", ".join(f"s.{m.group(1)}()" for _ in range(int(m.group(2)))) + "]"
            self.code.append(f"let {v} = [{', '.join(inner for _ in range(int(m.group(3))))}];")
            return v
        return None


def methods_of(name, src):
    m = re.search(rf"^impl {name} \{{", src, re.M)
    if not m:
        return []
    body = src[m.end():]
    end = re.search(r"^\}", body, re.M)
    body = body[:end.start()] if end else body
    out = []
    for mm in re.finditer(r"pub (?:const )?fn (\w+)(<[^>]*>)?\(([^)]*)\)(?:\s*->\s*([^{]+?))?\s*(?:where[^{]*)?\{", body):
        out.append((mm.group(1), mm.group(2), mm.group(3), mm.group(4)))
    return out


def harnesses(tier, cfg):
    sse = KCFGS[cfg]["sse"]
    Drawer.sse = sse
    hs, skipped = [], []
    rel = cfg.endswith("rel")    # release-like build: only the checks whose guard could be a debug-only assertion (slice lengths, indices) are repeated
    types = [] if rel else [(t.name, vec_file(t, sse)) for t in FLOAT_VECS] + [(q.name, q.file(sse)) for q in QUATS.values()] + [(m.name, m.file(sse)) for m in MATS.values()]
    for T, f in types:
        src = repo_read(f)
        for name, gen, params, ret in methods_of(T, src):
            if name in DOCUMENTED or gen:
                if gen:
                    skipped.append(f"{T}::{name} (generic)")
                continue
            d = Drawer(T)
            ps = split_params(params)
            args, recv, ok = [], None, True
            for p in ps:
                if p in ("self", "mut self", "&self", "&mut self"):
                    recv = d.value(T)
                    continue
                pn, _, pty = p.partition(":")
                v = d.value(pty)
                if v is None:
                    ok = False
                    break
                args.append(v)
            if not ok:
                skipped.append(f"{T}::{name}({params})")
                continue
            call = f"{recv}.{name}({', '.join(args)})" if recv else f"{T}::{name}({', '.join(args)})"
            if recv and "&mut self" in ps:
                d.code.append(f"let mut {recv} = {recv};")
            body = "\n".join(d.code + [f"let r = {call};"])
            h = Harness(f"c18_{T.lower()}_{name}", body, backend="sat", uf=UF_ALL,
                        desc=f"{T}::{name}: no panic, no failed bounds/pointer check for ANY argument bit patterns (glam-assert off)", site=f"{T}::{name}", funcs=[f"{T}::{name}"])
            hs.append(h)
    if not rel:
        harnesses.skipped = skipped
    # ---- slice functions: exact-size objects per length
    for t in FLOAT_VECS + [QUATS["Quat"], QUATS["DQuat"]]:
        T, sc = t.name, t.scalar
        N = getattr(t, "dim", 4)
        hs += slice_harnesses(T, sc, N, "from_slice", "write_to_slice", draw_any(T, t))
    for m in MATS.values():
        hs += slice_harnesses(m.name, m.scalar, m.n, "from_cols_slice", "write_cols_to_slice", draw_mat(m, "v")[0])
    # ---- Index / IndexMut with symbolic index
    for t in FLOAT_VECS:
        T, N = t.name, t.dim
        code, lanes = draw_vec(t, "v")
        hs.append(Harness(f"c18_{t.lname}_index_ok", "\n".join([code, f"let i = s.usize(); vassume!(i < {N}); let tv = s.{t.scalar}();", "let x = v[i]; let mut w = v; w[i] = tv;",
                          f'va!("{T} Index", x.bits([{", ".join(lanes)}][i]));', f'va!("{T} IndexMut", w[i].bits(tv));']),
                          desc=f"{T}: Index/IndexMut with any valid symbolic index never panic and address lane i", site=f"{T}::index"))
        hs.append(Harness(f"c18_{t.lname}_index_oob", "\n".join([code, f"let i = s.usize(); vassume!(i >= {N});", 'vcover!("PRE");', "let x = v[i];"]), expect="panic",
                          desc=f"{T}: Index panics for every index >= {N} (before any access)", site=f"{T}::index"))
        hs.append(Harness(f"c18_{t.lname}_indexmut_oob", "\n".join([code, f"let i = s.usize(); let tv = s.{t.scalar}(); vassume!(i >= {N});", 'vcover!("PRE");', "let mut w = v; w[i] = tv;"]), expect="panic",
                          desc=f"{T}: IndexMut panics for every index >= {N}", site=f"{T}::index"))
    return hs


def draw_any(T, t):
    if T in ("Quat", "DQuat"):
        sc = t.scalar
        return f"let v = {T}::from_xyzw(s.{sc}(), s.{sc}(), s.{sc}(), s.{sc}());"
    return draw_vec(t, "v")[0]


def slice_harnesses(T, sc, N, fromf, writef, drawv):
    hs = []
    lt = T.lower()
    for L in range(0, N + 5):
        elems = ", ".join(f"s.{sc}()" for _ in range(L))
        decl = f"let buf: [{sc}; {L}] = [{elems}];"
        if L < N:
            hs.append(Harness(f"c18_{lt}_{fromf}_len{L}", "\n".join([decl, 'vcover!("PRE");', f"let v = {T}::{fromf}(&buf);"]), expect="panic",
                              desc=f"{T}::{fromf} on an exact-size {L}-element buffer (< {N}) panics before any out-of-bounds access", site=f"{T}::{fromf}", unwind=N + 6))
            hs.append(Harness(f"c18_{lt}_{writef}_len{L}", "\n".join([drawv, f"let mut buf: [{sc}; {L}] = [{elems}];", 'vcover!("PRE");', f"v.{writef}(&mut buf);"]), expect="panic",
                              desc=f"{T}::{writef} into an exact-size {L}-element buffer (< {N}) panics before any out-of-bounds write", site=f"{T}::{writef}", unwind=N + 6))
        else:
            body = [decl, f"let v = {T}::{fromf}(&buf);", f"let mut out = [{'0.0'}; {N}]; v.{writef}(&mut out);"]
            body += [f'va!("{T}::{fromf} reads element {i}", out[{i}].bits(buf[{i}]));' for i in range(N)]
            hs.append(Harness(f"c18_{lt}_{fromf}_len{L}", "\n".join(body), desc=f"{T}::{fromf} on an exact-size {L}-element buffer reads exactly the first {N} elements, no access outside the object",
                              site=f"{T}::{fromf}", unwind=N + 6))
            body = [drawv, f"let mut buf: [{sc}; {L}] = [{elems}]; let keep = buf;", f"v.{writef}(&mut buf);", f"let back = {T}::{fromf}(&buf); let mut o1 = [0.0; {N}]; let mut o2 = [0.0; {N}]; v.{writef}(&mut o1); back.{writef}(&mut o2);"]
            body += [f'va!("{T}::{writef} writes element {i}", buf[{i}].bits(o1[{i}]) && o2[{i}].bits(o1[{i}]));' for i in range(N)]
            body += [f'va!("{T}::{writef} leaves element {i} untouched", buf[{i}].bits(keep[{i}]));' for i in range(N, L)]
            hs.append(Harness(f"c18_{lt}_{writef}_len{L}", "\n".join(body), desc=f"{T}::{writef} into an exact-size {L}-element buffer writes exactly the first {N} elements and leaves the rest untouched",
                              site=f"{T}::{writef}", unwind=N + 6))
    return hs
