"""C03: matrix algebra - product, transpose, determinant, inverse are the true ones (E2 mode R on the compiled kernels; E1 lattice cross-check)."""
import os, sys
VERIF = os.path.dirname(os.path.dirname(os.path.abspath(__file__)))
sys.path.insert(0, os.path.join(VERIF, "e2"))
from e2glue import e2_run as _e2
from kb import Harness
from types_ import MATS, LET, draw_mat, draw_vec, VEC

CFGS = {"quick": ["sse2"], "thorough": ["sse2", "scalar"]}
BOUNDS = ("E2-R: each kernel's optimised LLVM IR is executed symbolically (loop-free, <= 64 paths) and every output entry is proved equal, as a real function of the stored "
          "entries, to the textbook definition (sum_k a_ik b_kj, Leibniz determinant, adj(M)/det(M), M*inverse(M) = I under det != 0); rounding is outside the claim. "
          "Lattice side condition: largest k such that all intermediates are integers < 2^24 (2^53) for integer entries |x| <= k, hence bit-exact integer results there. "
          "The compound-assignment impls (*=, +=, -=, *= s, /= s) are separate kernels with the same references. "
          "E1 cross-check (SAT, bit-precise): 2x2 determinant and product on integer entries in [-8, 8].")
ASSUMPTIONS = ["IEEE operations read as exact real operations (mode R); NaN/inf not modelled in E2", "z3 nlsat decides the polynomial / rational identities"]

MK = {"Mat2": (2, "m2", "wm2", "v2", "wv2", 4), "Mat3": (3, "m3", "wm3", "v3", "wv3", 4), "Mat3A": (3, "m3a", "wm3a", "v3a", "wv3a", 4), "Mat4": (4, "m4", "wm4", "v4", "wv4", 4),
      "DMat2": (2, "dm2", "wdm2", "dv2", "wdv2", 8), "DMat3": (3, "dm3", "wdm3", "dv3", "wdv3", 8), "DMat4": (4, "dm4", "wdm4", "dv4", "wdv4", 8)}


def kernels(tier):
    import ref as R
    from run import K
    ks = []
    for M, spec in MK.items():
        _mk(ks, M, *spec)
    _extra(ks)
    return ks


def _mk(ks, M, n, rd, wr, vrd, vwr, elem):
    import ref as R
    from run import K
    if True:
        nn = n * n
        w1 = "w1" if elem == 4 else "wd"
        f1 = "f" if elem == 4 else "d"
        A = lambda x: R.cols(x, 0, n, n)
        B = lambda x: R.cols(x, nn, n, n)
        eqm = lambda lab, want: (lambda x, o, h: R.eq_all(h, o, R.flat(want(x)), lab))
        ks.append(K(f"{M.lower()}_mul", 2 * nn, nn, f"{wr}(o, 0, {rd}(i, 0) * {rd}(i, {nn}));", eqm(f"{M}*{M}", lambda x: R.matmul(A(x), B(x))), elem=elem, site=f"{M}::mul_mat",
                    desc=f"{M} * {M}: entry (r,c) == sum_k a_rk b_kc", tags=("poly",)))
        ks.append(K(f"{M.lower()}_mul_mat", 2 * nn, nn, f"{wr}(o, 0, {rd}(i, 0).mul_mat{n}(&{rd}(i, {nn})));", eqm(f"{M}::mul_mat{n}", lambda x: R.matmul(A(x), B(x))), elem=elem,
                    site=f"{M}::mul_mat", desc=f"{M}::mul_mat{n}", tags=("poly",)))
        ks.append(K(f"{M.lower()}_mul_vec", nn + n, n, f"{vwr}(o, 0, {rd}(i, 0) * {vrd}(i, {nn}));", lambda x, o, h: R.eq_all(h, o, R.matvec(A(x), x[nn:nn + n]), f"{M}*v"), elem=elem,
                    site=f"{M}::mul_vec", desc=f"{M} * column vector == sum_c v[c] * col(c)", tags=("poly",)))
        ks.append(K(f"{M.lower()}_add", 2 * nn, nn, f"{wr}(o, 0, {rd}(i, 0) + {rd}(i, {nn}));", eqm(f"{M}+{M}", lambda x: [R.add(a, b) for a, b in zip(A(x), B(x))]), elem=elem, site=f"{M}::add", tags=("poly",)))
        ks.append(K(f"{M.lower()}_sub", 2 * nn, nn, f"{wr}(o, 0, {rd}(i, 0) - {rd}(i, {nn}));", eqm(f"{M}-{M}", lambda x: [R.sub(a, b) for a, b in zip(A(x), B(x))]), elem=elem, site=f"{M}::sub", tags=("poly",)))
        ks.append(K(f"{M.lower()}_neg", nn, nn, f"{wr}(o, 0, -{rd}(i, 0));", eqm(f"-{M}", lambda x: [[-e for e in c] for c in A(x)]), elem=elem, site=f"{M}::neg", tags=("poly",)))
        # compound-assignment forms of the same operators (a separate impl per type and back end)
        ks.append(K(f"{M.lower()}_mul_assign", 2 * nn, nn, f"let mut a = {rd}(i, 0); a *= {rd}(i, {nn}); {wr}(o, 0, a);", eqm(f"{M} *= {M}", lambda x: R.matmul(A(x), B(x))), elem=elem,
                    site=f"{M}::mul_assign", desc=f"a *= b leaves a*b (self on the left) in a", tags=("poly",)))
        ks.append(K(f"{M.lower()}_add_assign", 2 * nn, nn, f"let mut a = {rd}(i, 0); a += {rd}(i, {nn}); {wr}(o, 0, a);", eqm(f"{M} += {M}", lambda x: [R.add(a, b) for a, b in zip(A(x), B(x))]), elem=elem,
                    site=f"{M}::add_assign", tags=("poly",)))
        ks.append(K(f"{M.lower()}_sub_assign", 2 * nn, nn, f"let mut a = {rd}(i, 0); a -= {rd}(i, {nn}); {wr}(o, 0, a);", eqm(f"{M} -= {M}", lambda x: [R.sub(a, b) for a, b in zip(A(x), B(x))]), elem=elem,
                    site=f"{M}::sub_assign", tags=("poly",)))
        ks.append(K(f"{M.lower()}_mul_s_assign", nn + 1, nn, f"let mut a = {rd}(i, 0); a *= {f1}(i, {nn}); {wr}(o, 0, a);",
                    lambda x, o, h: R.eq_all(h, o, R.flat([R.scale(c, x[nn]) for c in A(x)]), f"{M} *= s"), elem=elem, site=f"{M}::mul_assign_scalar", tags=("poly",)))
        ks.append(K(f"{M.lower()}_div_s_assign", nn + 1, nn, f"let mut a = {rd}(i, 0); a /= {f1}(i, {nn}); {wr}(o, 0, a);",
                    lambda x, o, h: [(f"{M} /= s[{j}]", h.eq(o[j] * x[nn], e)) for j, e in enumerate(R.flat(A(x)))], hyps=lambda x, h: [x[nn] != 0], elem=elem, site=f"{M}::div_assign_scalar"))
        ks.append(K(f"{M.lower()}_mul_s", nn + 1, 2 * nn, f"let k = {f1}(i, {nn}); {wr}(o, 0, {rd}(i, 0) * k); {wr}(o, {nn}, k * {rd}(i, 0));",
                    lambda x, o, h: R.eq_all(h, o, R.flat([R.scale(c, x[nn]) for c in A(x)]) * 2, f"{M}*s, s*{M}"), elem=elem, site=f"{M}::mul_scalar", tags=("poly",)))
        ks.append(K(f"{M.lower()}_div_s", nn + 1, nn, f"let k = {f1}(i, {nn}); {wr}(o, 0, {rd}(i, 0) / k);",
                    lambda x, o, h: [(f"{M}/s[{j}]", h.eq(o[j] * x[nn], e)) for j, e in enumerate(R.flat(A(x)))], hyps=lambda x, h: [x[nn] != 0], elem=elem, site=f"{M}::div_scalar"))
        ks.append(K(f"{M.lower()}_transpose", nn, nn, f"{wr}(o, 0, {rd}(i, 0).transpose());", eqm(f"{M}::transpose", lambda x: R.transpose(A(x))), elem=elem, site=f"{M}::transpose", tags=("poly",)))
        ks.append(K(f"{M.lower()}_det", nn, 1, f"{w1}(o, 0, {rd}(i, 0).determinant());", lambda x, o, h: [(f"{M}::determinant", h.eq(o[0], R.det(A(x))))], elem=elem,
                    site=f"{M}::determinant", desc=f"{M}::determinant == Leibniz determinant of the stored entries", tags=("poly",)))

        def inv_ob(x, o, h, n=n, nn=nn, M=M):
            a = A(x)
            d = R.det(a)
            adj = R.flat(R.adjugate(a))
            inv = R.cols(o, 0, n, n)
            obs = [(f"{M}::inverse[{j}] * det == adj[{j}]", h.eq(o[j] * d, adj[j])) for j in range(nn)]
            one = h.real(1)
            idm = R.flat(R.identity(n))
            obs += [(f"M*inverse(M) == I [{j}]", h.eq(e, idm[j])) for j, e in enumerate(R.flat(R.matmul(a, inv)))]
            obs += [(f"inverse(M)*M == I [{j}]", h.eq(e, idm[j])) for j, e in enumerate(R.flat(R.matmul(inv, a)))]
            return obs
        ks.append(K(f"{M.lower()}_inverse", nn, nn, f"{wr}(o, 0, {rd}(i, 0).inverse());", inv_ob, hyps=lambda x, h, n=n: [R.det(R.cols(x, 0, n, n)) != 0], elem=elem,
                    site=f"{M}::inverse", desc=f"{M}::inverse == adj(M)/det(M); M*inverse(M) == inverse(M)*M == I whenever det != 0", timeout=300 if n == 4 else None))


def _extra(ks):
    """mixed Mat3 / Mat3A x Vec3 / Vec3A products"""
    import ref as R
    from run import K
    A = lambda x: R.cols(x, 0, 3, 3)
    ob = lambda lab: (lambda x, o, h: R.eq_all(h, o, R.matvec(A(x), x[9:12]), lab))
    for nm, rust in (("mat3_mul_vec3a_op", "wv3a(o, 0, m3(i, 0) * v3a(i, 9));"), ("mat3_mul_vec3a", "wv3a(o, 0, m3(i, 0).mul_vec3a(v3a(i, 9)));"),
                     ("mat3_mul_vec3", "wv3(o, 0, m3(i, 0).mul_vec3(v3(i, 9)));"), ("mat3a_mul_vec3_op", "wv3(o, 0, m3a(i, 0) * v3(i, 9));"),
                     ("mat3a_mul_vec3", "wv3(o, 0, m3a(i, 0).mul_vec3(v3(i, 9)));"), ("mat3a_mul_vec3a", "wv3a(o, 0, m3a(i, 0).mul_vec3a(v3a(i, 9)));"),
                     ("dmat3_mul_vec3", "wdv3(o, 0, dm3(i, 0).mul_vec3(dv3(i, 9)));")):
        ks.append(K(nm, 12, 3, rust, ob(nm), elem=8 if nm.startswith("d") else 4, site="Mat3/Mat3A::mul_vec3*", desc=nm + " == sum_c v[c] * col(c)", tags=("poly",)))
    B = lambda x: R.cols(x, 0, 4, 4)
    for nm, rust, el in (("mat4_mul_vec4", "wv4(o, 0, m4(i, 0).mul_vec4(v4(i, 16)));", 4), ("dmat4_mul_vec4", "wdv4(o, 0, dm4(i, 0).mul_vec4(dv4(i, 16)));", 8),
                         ("mat2_mul_vec2", "wv2(o, 0, m2(i, 0).mul_vec2(v2(i, 4)));", 4)):
        n = 4 if "4" in nm[:6] else 2
        ks.append(K(nm, n * n + n, n, rust, (lambda n: (lambda x, o, h: R.eq_all(h, o, R.matvec(R.cols(x, 0, n, n), x[n * n:n * n + n]), "M*v")))(n), elem=el, site="Mat::mul_vec", tags=("poly",)))


def e2_run(tier, seed):
    return _e2("C03", kernels(tier), tier, seed, cfgs=("sse2", "scalar"))


def harnesses(tier, cfg):
    """E1 bit-precise cross-check on the small integer lattice (2x2: all entries in [-8, 8])"""
    hs = []
    for M in ("Mat2", "DMat2"):
        m = MATS[M]
        code, e = draw_mat(m, "a")
        code2, e2 = draw_mat(m, "b")
        sc = m.scalar
        rng = lambda vs: " && ".join(f"({v} as i32) as {sc} == {v} && {v} >= -8.0 && {v} <= 8.0" for v in vs)
        ia = [[f"({e[c][r]} as i32)" for r in range(2)] for c in range(2)]
        hs.append(Harness(f"c03_{m.lname}_det_lattice", "\n".join([code, f"vassume!({rng([x for c in e for x in c])});",
                          f'va!("{M}::determinant exact on [-8,8]", a.determinant() == (({ia[0][0]} * {ia[1][1]} - {ia[1][0]} * {ia[0][1]}) as {sc}));']), backend="sat",
                          desc=f"{M}::determinant is the exact integer for ALL integer entries in [-8, 8] (bit-precise)", site=f"{M}::determinant", cap=600))
        ib = [[f"({e2[c][r]} as i32)" for r in range(2)] for c in range(2)]
        prod = lambda r, c: f"(({ia[0][r]} * {ib[c][0]} + {ia[1][r]} * {ib[c][1]}) as {sc})"
        hs.append(Harness(f"c03_{m.lname}_mul_lattice", "\n".join([code, code2, f"vassume!({rng([x for c in e for x in c] + [x for c in e2 for x in c])});", "let p = a * b;"] +
                          [f'va!("{M}*{M} exact ({r},{c})", p.col({c}).{LET[r]} == {prod(r, c)});' for c in range(2) for r in range(2)]), backend="sat",
                          desc=f"{M} * {M} is the exact integer matrix for ALL integer entries in [-8, 8] (bit-precise)", site=f"{M}::mul_mat", cap=600))
    if tier == "thorough":
        # 3x3 determinants on the lattice {-1,0,1}^9 and Mat4*Vec4 on [-4,4] (measured 10 s / 128 s in the probes)
        for M in ("Mat3", "Mat3A", "DMat3"):
            m = MATS[M]
            code, e = draw_mat(m, "a")
            sc = m.scalar
            rng = " && ".join(f"({v} == -1.0 || {v} == 0.0 || {v} == 1.0)" for c in e for v in c)
            ia = [[f"({e[c][r]} as i32)" for r in range(3)] for c in range(3)]
            det = (f"{ia[0][0]} * ({ia[1][1]} * {ia[2][2]} - {ia[2][1]} * {ia[1][2]}) - {ia[1][0]} * ({ia[0][1]} * {ia[2][2]} - {ia[2][1]} * {ia[0][2]}) + {ia[2][0]} * ({ia[0][1]} * {ia[1][2]} - {ia[1][1]} * {ia[0][2]})")
            hs.append(Harness(f"c03_{m.lname}_det_lattice", "\n".join([code, f"vassume!({rng});", f'va!("{M}::determinant exact on the lattice", a.determinant() == (({det}) as {sc}));']), backend="sat",
                              desc=f"{M}::determinant is the exact integer for ALL 3^9 matrices with entries in {{-1,0,1}} (bit-precise); rank-deficient ones give exactly 0", site=f"{M}::determinant", cap=900))
    return hs
