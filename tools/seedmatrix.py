#!/usr/bin/env python3
"""Runs the registered quick check of each seeded mutation's property (plus listed extra checks) with the mutation applied to /repo, always reverting.
Writes seeded/RESULTS.md and the `detection` field of each seeded/<id>/meta.json.   usage: seedmatrix.py [seed-id ...]"""
import json, os, subprocess, sys, time
VERIF = os.path.dirname(os.path.dirname(os.path.abspath(__file__)))
SEEDED = os.path.join(VERIF, "seeded")
# extra (property, args) runs per seed: other properties whose checks also cover the mutated code, or a deeper tier
EXTRA = {
    "C13_m1": [("C13", ["--tier", "thorough", "--only", "i64vec4_hminmax"])],
    "C06_m1": [("C08", ["--only", "mat3a_transpose"])],
    "C17_m1": [("C08", ["--only", "vec3a_with_y"])],
    "C15_m1": [("C08", ["--only", "bvec3a_hash"])],
    "C15_m2": [("C01", ["--cfg", "sse2", "--only", "vec4_cmpge"])],
    "C10_m1": [("C05", ["--cfg", "none"])],
    "C07_m2": [("C03", ["--cfg", "none"])],
    "C20_m1": [("C12", ["--cfg", "sse2", "--only", "slerp"])],
    "C04_m1": [("C08", ["--only", "quat_mul_vec3a"])],
    "C05_m2": [("C16", ["--cfg", "sse2", "--only", "vec3a_get4"])],
    "C02_m1": [("C08", ["--only", "vec3a_element_sum"])],
    "C08_m1": [("C06", ["--cfg", "sse2", "--only", "mat3a_transpose"])],
    "C10_r2m2": [("C05", ["--cfg", "none"])],
    "C20_r3m1": [("C11", ["--tier", "quick"])],
    "C04_r3m1": [("C07", ["--tier", "quick"]), ("C01", ["--cfg", "sse2", "--only", "vec4_div"])],
    "C08_r3m1": [("C01", ["--cfg", "sse2", "--only", "vec3a_is_nan"])],
}


def run(seed):
    d = os.path.join(SEEDED, seed)
    patch = os.path.join(d, "patch.diff")
    prop = seed.split("_")[0]
    runs = [(prop, ["--tier", "quick"])] + EXTRA.get(seed, [])
    out = []
    if subprocess.run(["git", "-C", "/repo", "diff", "--quiet"]).returncode != 0:
        raise SystemExit("/repo not clean")
    subprocess.run(["git", "-C", "/repo", "apply", patch], check=True)
    try:
        for p, args in runs:
            t0 = time.time()
            r = subprocess.run([os.path.join(VERIF, "check"), p] + args, cwd=VERIF, stdout=subprocess.PIPE, stderr=subprocess.STDOUT, text=True)
            viol = [l for l in r.stdout.splitlines() if l.startswith("VIOLATION")]
            inc = [l for l in r.stdout.splitlines() if l.startswith("INCONCLUSIVE")]
            out.append(dict(check=f"./check {p} {' '.join(args)}", rc=r.returncode, violations=len(viol), first=(viol[0] if viol else (inc[0][:200] if inc else "")), secs=round(time.time() - t0)))
    finally:
        subprocess.run(["git", "-C", "/repo", "checkout", "--", "."], check=True)
    return out


def main():
    seeds = sys.argv[1:] or sorted(os.listdir(SEEDED))
    seeds = [s for s in seeds if os.path.isdir(os.path.join(SEEDED, s))]
    resp = os.path.join(SEEDED, "results.json")
    allres = json.load(open(resp)) if os.path.exists(resp) else {}
    for s in seeds:
        print("==", s, flush=True)
        allres[s] = run(s)
        json.dump(allres, open(resp, "w"), indent=1)
        mp = os.path.join(SEEDED, s, "meta.json")
        m = json.load(open(mp))
        caught = [r for r in allres[s] if r["rc"] == 1]
        m["detection"] = dict(caught=bool(caught), runs=allres[s])
        json.dump(m, open(mp, "w"), indent=1)
        print("   ", [(r["check"], r["rc"]) for r in allres[s]], flush=True)
    lines = ["# Seeded mutations vs checks", "", "rc 1 = VIOLATION reported (caught); rc 2 = the check turned inconclusive on the mutated tree (anomaly flagged, no violation claimed); rc 0 = missed.", "",
             "| seed | check | rc | first line | s |", "|---|---|---|---|---|"]
    for s in sorted(allres):
        for r in allres[s]:
            lines.append(f"| {s} | `{r['check']}` | {r['rc']} | {r['first'][:140].replace('|', '/')} | {r['secs']} |")
    n = len(allres)
    c = sum(1 for s in allres if any(r["rc"] == 1 for r in allres[s]))
    own = sum(1 for s in allres if allres[s] and allres[s][0]["rc"] == 1)
    lines += ["", f"caught by some registered check: {c} / {n}; caught by the seed's own property's quick check: {own} / {n}"]
    open(os.path.join(SEEDED, "RESULTS.md"), "w").write("\n".join(lines) + "\n")


if __name__ == "__main__":
    main()
