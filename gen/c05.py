"""C05: Quat / Mat3 / Mat3A / Mat4 / Affine types are interchangeable views of a transform (E1 bits for data movement, E2-R for the laws)."""
import os, sys
VERIF = os.path.dirname(os.path.dirname(os.path.abspath(__file__)))
sys.path.insert(0, os.path.join(VERIF, "e2"))
from e2glue import e2_run as _e2
from kb import Harness
from types_ import MATS, LET, AXIS, draw_mat, draw_vec, VEC

CFGS = {"quick": ["sse2", "scalar"], "thorough": ["sse2", "scalar"]}
BOUNDS = ("E1 (bits, all entry bit patterns, arbitrary hidden lanes): every data-movement conversion between Mat2/Mat3/Mat3A/Mat4/Affine2/Affine3A and the f64 forms, as_* casts. "
          "E2-R (SSE2 and scalar IR): from_quat has the textbook nine entries on Mat3/Mat3A/Mat4/Affine3A and f64 forms; from_quat(q)*v == q*v; from_quat(q)*from_quat(p) == "
          "from_quat(q*p) under |q|=|p|=1; Mat4::from(a*b) == Mat4::from(a)*Mat4::from(b); Mat4::from(a.inverse()) * Mat4::from(a) == I (det != 0); transform_point3/vector3 of every "
          "representation == M*(p,1) / M*(p,0) (Vec3A points with arbitrary hidden lane); Quat::from_mat3/from_mat3a/from_mat4(from_quat(q)) == +-q under |q| = 1 on each of the four "
          "branches of the matrix-to-quaternion conversion (path conditions from the IR). Chains of conversions compose because each step is exact on entries or an exact real identity.")
ASSUMPTIONS = ["IEEE operations read as exact real operations (mode R) in E2"]


# ---------------------------------------------------------------------------------------------
# E1: data-movement conversions preserve entries bit for bit
# ---------------------------------------------------------------------------------------------
def harnesses(tier, cfg):
    hs = []

    def conv(name, src, expr, dst, expect, cast=None):
        """expect(e) -> dict {(c, r): rust expr}"""
        sm, dm = MATS[src], MATS[dst]
        code, e = draw_mat(sm, "a")
        L = [code, f"let r: {dst} = {expr}; let arr = r.to_cols_array();"]
        exp = expect(e)
        for c in range(dm.cols):
            for r in range(dm.rows):
                want = exp[(c, r)]
                if cast:
                    want = f"({want} as {cast})"
                L.append(f'va!("{name} ({r},{c})", arr[{c * dm.rows + r}].bits({want}));')
        hs.append(Harness(f"c05_{name}", "\n".join(L), backend="sat", desc=f"{name}: every stored entry of the result is the documented entry of the source, bit for bit", site=name, funcs=[name]))

    for p in ("", "D"):
        M2, M3, M4, A2, A3 = p + "Mat2", p + "Mat3", p + "Mat4", p + "Affine2", p + ("Affine3" if p else "Affine3A")
        z, o = "0.0", "1.0"
        same = lambda n: (lambda e: {(c, r): e[c][r] for c in range(n) for r in range(n)})
        threes = [M3] + (["Mat3A"] if not p else [])
        for T3 in threes:
            l3 = T3.lower()
            f3 = l3[1:] if p else l3      # DMat4::from_mat3(DMat3)
            conv(f"{p}mat4_from_{l3}", T3, f"{M4}::from_{f3}(a)", M4, lambda e: {(c, r): (e[c][r] if c < 3 and r < 3 else (o if c == r else z)) for c in range(4) for r in range(4)})
            conv(f"{l3}_from_{p.lower()}mat4", M4, f"{T3}::from_mat4(a)", T3, same(3))
            conv(f"{p}mat2_from_{l3}", T3, f"{M2}::from_{f3}(a)", M2, same(2))
            conv(f"{l3}_from_{p.lower()}mat2", M2, f"{T3}::from_mat2(a)", T3, lambda e: {(c, r): (e[c][r] if c < 2 and r < 2 else (o if c == r else z)) for c in range(3) for r in range(3)})
            conv(f"{l3}_from_{A2.lower()}", A2, f"{T3}::from(a)", T3, lambda e: {(c, r): (e[c][r] if r < 2 else (o if c == 2 else z)) for c in range(3) for r in range(3)})
            conv(f"{A2.lower()}_from_{l3}", T3, f"{A2}::from_{f3}(a)", A2, lambda e: {(c, r): e[c][r] for c in range(3) for r in range(2)})
        if not p:
            conv("mat3_from_mat3a", "Mat3A", "Mat3::from(a)", "Mat3", same(3))
            conv("mat3a_from_mat3", "Mat3", "Mat3A::from(a)", "Mat3A", same(3))
        conv(f"{p}mat4_from_{A3.lower()}", A3, f"{M4}::from(a)", M4, lambda e: {(c, r): (e[c][r] if r < 3 else (o if c == 3 else z)) for c in range(4) for r in range(4)})
        conv(f"{A3.lower()}_from_{p}mat4", M4, f"{A3}::from_mat4(a)", A3, lambda e: {(c, r): e[c][r] for c in range(4) for r in range(3)})
        conv(f"{A3.lower()}_from_{M3.lower()}", M3, f"{A3}::from_mat3(a)", A3, lambda e: {(c, r): (e[c][r] if c < 3 else z) for c in range(4) for r in range(3)})
        conv(f"{A2.lower()}_from_{M2.lower()}", M2, f"{A2}::from_mat2(a)", A2, lambda e: {(c, r): (e[c][r] if c < 2 else z) for c in range(3) for r in range(2)})
    # f32 <-> f64 casts
    for a, b, m in (("Mat2", "DMat2", "as_dmat2"), ("Mat3", "DMat3", "as_dmat3"), ("Mat3A", "DMat3", "as_dmat3"), ("Mat4", "DMat4", "as_dmat4"), ("Affine2", "DAffine2", "as_daffine2"), ("Affine3A", "DAffine3", "as_daffine3")):
        n = MATS[a]
        conv(f"{a.lower()}_{m}", a, f"a.{m}()", b, lambda e, n=n: {(c, r): e[c][r] for c in range(n.cols) for r in range(n.rows)}, cast="f64")
    for a, b, m in (("DMat2", "Mat2", "as_mat2"), ("DMat3", "Mat3", "as_mat3"), ("DMat4", "Mat4", "as_mat4"), ("DAffine2", "Affine2", "as_affine2"), ("DAffine3", "Affine3A", "as_affine3a")):
        n = MATS[a]
        conv(f"{a.lower()}_{m}", a, f"a.{m}()", b, lambda e, n=n: {(c, r): e[c][r] for c in range(n.cols) for r in range(n.rows)}, cast="f32")
    hs.append(Harness("c05_quat_as_dquat", "\n".join(["let a0 = s.f32(); let a1 = s.f32(); let a2 = s.f32(); let a3 = s.f32(); let q = Quat::from_xyzw(a0, a1, a2, a3); let d = q.as_dquat();"] +
              [f'va!("Quat::as_dquat[{i}]", d.{LET[i]}.bits(a{i} as f64));' for i in range(4)] +
              ["let b0 = s.f64(); let b1 = s.f64(); let b2 = s.f64(); let b3 = s.f64(); let e = DQuat::from_xyzw(b0, b1, b2, b3).as_quat();"] +
              [f'va!("DQuat::as_quat[{i}]", e.{LET[i]}.bits(b{i} as f32));' for i in range(4)]), backend="sat", desc="Quat::as_dquat / DQuat::as_quat cast each component like `as`", site="Quat::as_dquat"))
    return hs


# ---------------------------------------------------------------------------------------------
# E2: laws
# ---------------------------------------------------------------------------------------------
def kernels(tier):
    import ref as R
    from run import K
    ks = []
    n2 = lambda q: R.dot(q, q)
    unit = lambda *ranges: (lambda x, h: [n2(x[a:a + 4]) == 1 for a in ranges])
    # from_quat: textbook entries
    fq = [("Mat3", "wm3(o, 0, Mat3::from_quat(q(i, 0)));", 4, 3), ("Mat3A", "wm3a(o, 0, Mat3A::from_quat(q(i, 0)));", 4, 3), ("DMat3", "wdm3(o, 0, DMat3::from_quat(dq(i, 0)));", 8, 3),
          ("Mat4", "wm4(o, 0, Mat4::from_quat(q(i, 0)));", 4, 4), ("DMat4", "wdm4(o, 0, DMat4::from_quat(dq(i, 0)));", 8, 4),
          ("Affine3A", "wa3(o, 0, Affine3A::from_quat(q(i, 0)));", 4, 34), ("DAffine3", "wda3(o, 0, DAffine3::from_quat(dq(i, 0)));", 8, 34)]
    for T, rust, elem, shape in fq:
        def ob(x, o, h, shape=shape, T=T):
            m3 = R.quat_to_mat3(x[0:4])
            if shape == 3:
                want = R.flat(m3)
            elif shape == 4:
                want = R.flat(R.embed4(m3))
            else:
                want = R.flat(m3) + [0, 0, 0]
            return R.eq_all(h, o, want, f"{T}::from_quat")
        ks.append(K(f"{T.lower()}_from_quat", 4, len(ob([0] * 4, [0] * 16, _H())), rust, ob, hyps=unit(0), elem=elem, site=f"{T}::from_quat", desc=f"{T}::from_quat(q) has the textbook entries (|q| = 1)"))
    # from_quat(q) * v == q * v   and   from_quat(q)*from_quat(p) == from_quat(q*p)
    ks.append(K("from_quat_action", 7, 12, "let a = q(i, 0); let v = v3(i, 4); wv3(o, 0, Mat3::from_quat(a) * v); wv3(o, 3, a * v); wv3a(o, 6, Mat3A::from_quat(a) * Vec3A::from(v)); wv3(o, 9, Mat4::from_quat(a).transform_vector3(v));",
                lambda x, o, h: [(f"from_quat(q)*v == q*v [{j}]", z3and(h, [h.eq(o[j], o[3 + j]), h.eq(o[6 + j], o[3 + j]), h.eq(o[9 + j], o[3 + j])])) for j in range(3)], hyps=unit(0), site="from_quat action",
                desc="Mat3/Mat3A/Mat4::from_quat(q) act on vectors exactly like q (|q| = 1)"))
    ks.append(K("from_quat_compose", 8, 18, "let a = q(i, 0); let b = q(i, 4); wm3(o, 0, Mat3::from_quat(a) * Mat3::from_quat(b)); wm3(o, 9, Mat3::from_quat(a * b));",
                lambda x, o, h: [(f"M(q)M(p) == M(q*p) [{j}]", h.eq(o[j], o[9 + j])) for j in range(9)], hyps=unit(0, 4), site="from_quat compose", desc="matrix_of(q*p) == matrix_of(q)*matrix_of(p)", timeout=600))
    # matrix -> quaternion -> matrix on all four branches
    for nm, rust in (("quat_from_mat3", "wq(o, 0, Quat::from_mat3(&Mat3::from_quat(q(i, 0))));"), ("quat_from_mat3a", "wq(o, 0, Quat::from_mat3a(&Mat3A::from_quat(q(i, 0))));"),
                     ("quat_from_mat4", "wq(o, 0, Quat::from_mat4(&Mat4::from_quat(q(i, 0))));"), ("dquat_from_mat3", "wdq(o, 0, DQuat::from_mat3(&DMat3::from_quat(dq(i, 0))));")):
        ks.append(K(nm, 4, 4, rust, lambda x, o, h: [("from_mat(from_quat(q)) == +-q", z3or(h, [z3and(h, [h.eq(o[j], x[j]) for j in range(4)]), z3and(h, [h.eq(o[j], -x[j]) for j in range(4)])]))],
                    hyps=unit(0), elem=8 if nm.startswith("d") else 4, site=nm.replace("_", "::", 1), desc="matrix -> quaternion returns +-q on every branch (trace > 0 and the three trace <= 0 branches)", timeout=300))
    # direct: from_mat3 of a rotation matrix M(q) given as a matrix of q-polynomials is covered above; also from_affine3
    ks.append(K("quat_from_affine3", 4, 4, "wq(o, 0, Quat::from_affine3(&Affine3A::from_quat(q(i, 0))));",
                lambda x, o, h: [("from_affine3(from_quat(q)) == +-q", z3or(h, [z3and(h, [h.eq(o[j], x[j]) for j in range(4)]), z3and(h, [h.eq(o[j], -x[j]) for j in range(4)])]))], hyps=unit(0), site="Quat::from_affine3", timeout=300))
    # affine <-> Mat4: composition, inverse, identity, action (Vec3A points with arbitrary hidden lane)
    A = lambda x, b: R.cols(x, b, 4, 3)
    hom = lambda a: [a[0] + [0], a[1] + [0], a[2] + [0], a[3] + [1]]
    ks.append(K("affine3a_compose", 24, 32, "let a = a3(i, 0); let b = a3(i, 12); wm4(o, 0, Mat4::from(a * b)); wm4(o, 16, Mat4::from(a) * Mat4::from(b));",
                lambda x, o, h: [(f"Mat4::from(a*b) == Mat4::from(a)*Mat4::from(b) [{j}]", h.eq(o[j], o[16 + j])) for j in range(16)] + R.eq_all(h, o[:16], R.flat(R.matmul(hom(A(x, 0)), hom(A(x, 12)))), "a*b"),
                site="Affine3A::mul", desc="conversion Affine3A -> Mat4 commutes with composition; a*b is the homogeneous product"))
    ks.append(K("affine3a_inverse", 12, 16, "let a = a3(i, 0); wm4(o, 0, Mat4::from(a.inverse()) * Mat4::from(a));",
                lambda x, o, h: R.eq_all(h, o, R.flat(R.identity(4)), "Mat4::from(a.inverse()) * Mat4::from(a) == I"), hyps=lambda x, h: [R.det(A(x, 0)[:3]) != 0], site="Affine3A::inverse", timeout=300))
    ks.append(K("affine3a_identity", 0, 16, "wm4(o, 0, Mat4::from(Affine3A::IDENTITY));", lambda x, o, h: R.eq_all(h, o, R.flat(R.identity(4)), "identity"), site="Affine3A::IDENTITY"))
    ks.append(K("affine3a_mul_mat4", 28, 32, "let a = a3(i, 0); let m = m4(i, 12); wm4(o, 0, a * m); wm4(o, 16, m * a);",
                lambda x, o, h: R.eq_all(h, o[:16], R.flat(R.matmul(hom(A(x, 0)), R.cols(x, 12, 4, 4))), "Affine3A*Mat4") + R.eq_all(h, o[16:], R.flat(R.matmul(R.cols(x, 12, 4, 4), hom(A(x, 0)))), "Mat4*Affine3A"),
                site="Affine3A*Mat4", desc="mixed Affine3A x Mat4 products are the homogeneous products for EVERY Mat4 (incl. projective)"))
    ks.append(K("affine3a_action", 16, 18, "let a = a3(i, 0); let p = v3ah(i, 12); let v = Vec3::from(p); wv3(o, 0, a.transform_point3(v)); wv3(o, 3, a.transform_vector3(v)); wv3a(o, 6, a.transform_point3a(p)); wv3a(o, 9, a.transform_vector3a(p)); "
                "let m = Mat4::from(a); wv3(o, 12, m.transform_point3(v)); wv3a(o, 15, m.transform_point3a(p));",
                lambda x, o, h: (lambda a, p: R.eq_all(h, o[0:3], R.add(R.matvec(a[:3], p), a[3]), "transform_point3") + R.eq_all(h, o[3:6], R.matvec(a[:3], p), "transform_vector3") +
                                 R.eq_all(h, o[6:9], R.add(R.matvec(a[:3], p), a[3]), "transform_point3a") + R.eq_all(h, o[9:12], R.matvec(a[:3], p), "transform_vector3a") +
                                 R.eq_all(h, o[12:15], R.add(R.matvec(a[:3], p), a[3]), "Mat4::from(a).transform_point3") + R.eq_all(h, o[15:18], R.add(R.matvec(a[:3], p), a[3]), "Mat4::from(a).transform_point3a"))(A(x, 0), x[12:15]),
                site="Affine3A::transform", desc="every representation maps points/directions alike: linear*p + translation, hidden lane of Vec3A points ignored"))
    ks.append(K("mat4_action", 20, 15, "let m = m4(i, 0); let p = v3ah(i, 16); let v = Vec3::from(p); wv3(o, 0, m.transform_point3(v)); wv3(o, 3, m.transform_vector3(v)); wv3a(o, 6, m.transform_point3a(p)); wv3a(o, 9, m.transform_vector3a(p)); wv3(o, 12, Mat3::from_mat4(m) * v);",
                lambda x, o, h: (lambda m, p: R.eq_all(h, o[0:3], R.matvec(m, p + [1])[:3], "Mat4::transform_point3") + R.eq_all(h, o[3:6], R.matvec(m, p + [0])[:3], "Mat4::transform_vector3") +
                                 R.eq_all(h, o[6:9], R.matvec(m, p + [1])[:3], "Mat4::transform_point3a") + R.eq_all(h, o[9:12], R.matvec(m, p + [0])[:3], "Mat4::transform_vector3a") +
                                 R.eq_all(h, o[12:15], R.matvec(m, p + [0])[:3], "Mat3::from_mat4(m)*v"))(R.cols(x, 0, 4, 4), x[16:19]),
                site="Mat4::transform", desc="transform_point3/vector3(a) == xyz of M*(p,1) / M*(p,0) without divide"))
    A2 = lambda x, b: R.cols(x, b, 3, 2)
    hom2 = lambda a: [a[0] + [0], a[1] + [0], a[2] + [1]]
    ks.append(K("affine2_compose", 12, 18, "let a = a2(i, 0); let b = a2(i, 6); wm3(o, 0, Mat3::from(a * b)); wm3(o, 9, Mat3::from(a) * Mat3::from(b));",
                lambda x, o, h: [(f"Mat3::from(a*b) == Mat3::from(a)*Mat3::from(b) [{j}]", h.eq(o[j], o[9 + j])) for j in range(9)] + R.eq_all(h, o[:9], R.flat(R.matmul(hom2(A2(x, 0)), hom2(A2(x, 6)))), "a*b"), site="Affine2::mul"))
    ks.append(K("affine2_action", 8, 8, "let a = a2(i, 0); let p = v2(i, 6); wv2(o, 0, a.transform_point2(p)); wv2(o, 2, a.transform_vector2(p)); let m = Mat3::from(a); wv2(o, 4, m.transform_point2(p)); wv2(o, 6, m.transform_vector2(p));",
                lambda x, o, h: (lambda a, p: R.eq_all(h, o[0:2], R.add(R.matvec(a[:2], p), a[2]), "Affine2::transform_point2") + R.eq_all(h, o[2:4], R.matvec(a[:2], p), "Affine2::transform_vector2") +
                                 R.eq_all(h, o[4:6], R.add(R.matvec(a[:2], p), a[2]), "Mat3::transform_point2") + R.eq_all(h, o[6:8], R.matvec(a[:2], p), "Mat3::transform_vector2"))(A2(x, 0), x[6:8]), site="Affine2::transform"))
    ks.append(K("affine2_inverse", 6, 9, "let a = a2(i, 0); wm3(o, 0, Mat3::from(a.inverse()) * Mat3::from(a));", lambda x, o, h: R.eq_all(h, o, R.flat(R.identity(3)), "inverse"), hyps=lambda x, h: [R.det(A2(x, 0)[:2]) != 0], site="Affine2::inverse"))
    return ks


class _H:
    def eq(self, a, b):
        return True


def z3and(h, fs):
    import z3
    return z3.And(*fs) if any(z3.is_expr(f) for f in fs) else all(fs)


def z3or(h, fs):
    import z3
    return z3.Or(*fs) if any(z3.is_expr(f) for f in fs) else any(fs)


def e2_run(tier, seed):
    return _e2("C05", kernels(tier), tier, seed, cfgs=("sse2", "scalar"))
