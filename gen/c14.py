"""C14: conversions between vector types match the primitive conversions lane by lane (bits)."""
import os, re
from kb import Harness, CFGS as KCFGS
from types_ import VEC, LET, SCALARS, draw_vec, draw_scalar, REPO

CFGS = {"quick": ["sse2", "scalar"], "thorough": ["sse2", "scalar"]}
BOUNDS = ("every as_*/From/TryFrom impl found by scanning the tree for the configuration; all source lane values are unconstrained bit patterns "
          "(all 2^32 / 2^64 values symbolically); Kani's model of `as` on both sides of each comparison")
ASSUMPTIONS = ["Kani/CBMC's model of Rust `as` casts (float->int saturating, NaN->0; int->float and f64->f32 round-to-nearest-even)"]
PRIMS = set(SCALARS)


def scan_files(cfg):
    sse = KCFGS[cfg]["sse"]
    skip = ("neon", "wasm32", "coresimd", "features", "scalar" if sse else "sse2")
    out = []
    for root, dirs, files in os.walk(os.path.join(REPO, "src")):
        dirs[:] = [d for d in dirs if d not in skip]
        for f in files:
            if f.endswith(".rs"):
                out.append(os.path.join(root, f))
    return sorted(out)


def parse_tuple(s):
    s = s.strip()
    if s.startswith("(") and s.endswith(")"):
        return [x.strip() for x in s[1:-1].split(",") if x.strip()]
    return None


def harnesses(tier, cfg):
    hs = []
    files = scan_files(cfg)
    text = {f: open(f).read() for f in files}
    impls = set()
    as_methods = {}
    for f, t in text.items():
        for m in re.finditer(r"^impl (Try)?From<(.+?)> for ([^{]+?) \{", t, re.M):
            prev = t[:m.start()].rstrip().splitlines()[-1] if t[:m.start()].strip() else ""
            scalar_cfg = "scalar-math" in KCFGS[cfg]["features"]
            if 'cfg(not(feature = "scalar-math"))' in prev and scalar_cfg:
                continue
            if 'cfg(feature = "scalar-math")' in prev and not scalar_cfg:
                continue
            impls.add((bool(m.group(1)), m.group(2).strip(), m.group(3).strip()))
        for m in re.finditer(r"^impl (\w+) \{", t, re.M):
            T = m.group(1)
            if T in VEC:
                body = t[m.end():]
                for a in re.finditer(r"pub fn (as_\w+)\(&self\) -> (?:crate::)?(\w+)", body):
                    as_methods.setdefault(T, set()).add((a.group(1), a.group(2)))

    def H(name, lines, desc, site, funcs=()):
        hs.append(Harness(f"c14_{name}", "\n".join(lines), backend="sat", desc=desc, site=site, funcs=list(funcs) or [site]))

    # ---- as_* casts, one harness per source type
    for T in sorted(as_methods):
        t = VEC[T]
        code, lanes = draw_vec(t, "a")
        lines = [code]
        for meth, R in sorted(as_methods[T]):
            if R not in VEC:
                continue
            r = VEC[R]
            lines.append(f"{{ let r: {R} = a.{meth}();")
            for i in range(min(t.dim, r.dim)):
                lines.append(f'  va!("{T}::{meth}[{i}]", r.{LET[i]}.bits(a{i} as {r.scalar}));')
            lines.append("}")
        H(f"{t.lname}_as", lines, f"{T}: every as_* cast ({len(as_methods[T])} methods): lane i == `self[i] as T` bit for bit, all source values", f"{T}::as_*",
          [f"{T}::{m}" for m, _ in sorted(as_methods[T])])
    # ---- From / TryFrom
    groups = {}
    for is_try, src, dst in sorted(impls):
        groups.setdefault(dst if dst in VEC else (src if src in VEC else None), []).append((is_try, src, dst))
    for key, lst in sorted(groups.items(), key=lambda kv: str(kv[0])):
        if key is None:
            continue
        blocks = []
        for is_try, src, dst in lst:
            blk = conv_block(is_try, src, dst, len(blocks))
            if blk:
                blocks.append((blk, f"{'Try' if is_try else ''}From<{src}> for {dst}"))
        for ci in range(0, len(blocks), 10):   # at most 10 conversions (<= 50 input words) per harness
            chunk = blocks[ci:ci + 10]
            lines = [l for b, _ in chunk for l in b]
            H(f"{VEC[key].lname}_from_{ci // 10}", lines, f"{key}: {len(chunk)} From/TryFrom impls involving it: lossless, lane order preserved; TryFrom Ok exactly when every lane fits",
              f"{key}::From", [f for _, f in chunk])
    # ---- extend / truncate / from_vec4 / Quat<->Vec4
    for T, t in sorted(VEC.items()):
        lines = []
        code, lanes = draw_vec(t, "a")
        lines.append(code)
        pre = SCALARS[t.scalar]["prefix"]
        if t.dim < 4 and T != "Vec3A":
            up = f"{pre}{t.dim + 1}"
            lines.append(draw_scalar(t.scalar, "k"))
            lines.append(f"{{ let r: {up} = a.extend(k);")
            lines += [f'va!("{T}::extend[{i}]", r.{LET[i]}.bits(a{i}));' for i in range(t.dim)] + [f'va!("{T}::extend[{t.dim}]", r.{LET[t.dim]}.bits(k)); }}']
        if T == "Vec3A":
            lines.append(draw_scalar("f32", "k"))
            lines.append("{ let r: Vec4 = a.extend(k);")
            lines += [f'va!("Vec3A::extend[{i}]", r.{LET[i]}.bits(a{i}));' for i in range(3)] + ['va!("Vec3A::extend[3]", r.w.bits(k)); }']
            lines.append("{ let v4 = Vec4::new(a0, a1, a2, k); let r = Vec3A::from_vec4(v4);")
            lines += [f'va!("Vec3A::from_vec4[{i}]", r.{LET[i]}.bits(a{i}));' for i in range(3)] + ["}"]
            lines.append("{ let r: Vec3 = Vec3::from(a); let b = Vec3A::from(r);")
            lines += [f'va!("Vec3A::to_vec3[{i}]", r.{LET[i]}.bits(a{i}) && b.{LET[i]}.bits(a{i}));' for i in range(3)] + ["}"]
        if t.dim > 2:
            if T == "Vec3A":
                down = "Vec2"
            elif T == "Vec4":
                down = "Vec3"
            else:
                down = f"{pre}{t.dim - 1}"
            lines.append(f"{{ let r: {down} = a.truncate();")
            lines += [f'va!("{T}::truncate[{i}]", r.{LET[i]}.bits(a{i}));' for i in range(t.dim - 1)] + ["}"]
        if T == "Vec4":
            lines.append("{ let r: Vec3A = Vec3A::from_vec4(a);")
            lines += [f'va!("Vec3A::from_vec4(Vec4)[{i}]", r.{LET[i]}.bits(a{i}));' for i in range(3)] + ["}"]
            lines.append("{ let q = Quat::from_vec4(a); let b: Vec4 = q.into(); let c = Vec4::from(q);")
            lines += [f'va!("Quat<->Vec4[{i}]", q.{LET[i]}.bits(a{i}) && b.{LET[i]}.bits(a{i}) && c.{LET[i]}.bits(a{i}));' for i in range(4)] + ["}"]
        if T == "DVec4":
            lines.append("{ let q = DQuat::from_vec4(a); let b: DVec4 = q.into();")
            lines += [f'va!("DQuat<->DVec4[{i}]", q.{LET[i]}.bits(a{i}) && b.{LET[i]}.bits(a{i}));' for i in range(4)] + ["}"]
        if len(lines) > 1:
            H(f"{t.lname}_extend_truncate", lines, f"{T}: extend/truncate (and Vec3A<->Vec3/Vec4, Quat<->Vec4) preserve each lane bit for bit, in order", f"{T}::extend_truncate")
    return hs


def conv_block(is_try, src, dst, n):
    """Rust block checking one From/TryFrom impl; None if the pair is not a recognised vector conversion"""
    L = []
    v = f"v{n}"
    if src in VEC and dst in VEC:
        s, d = VEC[src], VEC[dst]
        if s.dim != d.dim:
            return None
        code, lanes = draw_vec(s, v)
        L.append("{ " + code)
        if is_try:
            ok = " && ".join(f"{d.scalar}::try_from({l}).is_ok()" for l in lanes)
            L.append(f"let r = {dst}::try_from({v});")
            L.append(f'va!("TryFrom<{src}> for {dst} ok", r.is_ok() == ({ok}));')
            L.append("if let Ok(r) = r {")
            L += [f'va!("TryFrom<{src}> for {dst}[{i}]", Ok(r.{LET[i]}) == {d.scalar}::try_from({lanes[i]}));' for i in range(d.dim)]
            L.append("} }")
        else:
            L.append(f"let r = {dst}::from({v});")
            if src == "Vec3A" or dst == "Vec3A" or s.scalar == d.scalar:
                L += [f'va!("From<{src}> for {dst}[{i}]", r.{LET[i]}.bits({lanes[i]}));' for i in range(d.dim)]
            else:
                L += [f'va!("From<{src}> for {dst}[{i}]", r.{LET[i]}.bits({d.scalar}::from({lanes[i]})) && r.{LET[i]}.bits({lanes[i]} as {d.scalar}));' for i in range(d.dim)]
            L.append("}")
        return L
    if is_try:
        return None
    # masks -> numeric vectors: true is 1, false is 0
    if src.startswith("BVec") and dst in VEC:
        d = VEC[dst]
        nb = int(src[4])
        if nb != d.dim:
            return None
        one, zero = ("1.0", "0.0") if d.float else ("1", "0")
        L.append("{ " + " ".join(f"let {v}b{i} = s.bool();" for i in range(nb)) + f" let m = {src}::new({', '.join(f'{v}b{i}' for i in range(nb))});")
        if src == "BVec3A":
            L.append(f"let h = s.bool(); let m = if h {{ (!m) ^ BVec3A::new(true, true, true) }} else {{ m }};")
        L.append(f"let r = {dst}::from(m);")
        L += [f'va!("From<{src}> for {dst}[{i}]", r.{LET[i]}.bits(if {v}b{i} {{ {one} }} else {{ {zero} }}));' for i in range(nb)]
        L.append("}")
        return L
    # arrays
    m = re.fullmatch(r"\[(\w+); (\d)\]", src)
    if m and dst in VEC and m.group(1) == VEC[dst].scalar:
        d = VEC[dst]
        code, lanes = draw_vec(d, v)
        L.append("{ " + code + f" let r = {dst}::from([{', '.join(lanes)}]);")
        L += [f'va!("From<[{d.scalar}; {d.dim}]> for {dst}[{i}]", r.{LET[i]}.bits({lanes[i]}));' for i in range(d.dim)] + ["}"]
        return L
    m = re.fullmatch(r"\[(\w+); (\d)\]", dst)
    if m and src in VEC and m.group(1) == VEC[src].scalar:
        s = VEC[src]
        code, lanes = draw_vec(s, v)
        L.append("{ " + code + f" let r: [{s.scalar}; {s.dim}] = {v}.into();")
        L += [f'va!("From<{src}> for array[{i}]", r[{i}].bits({lanes[i]}));' for i in range(s.dim)] + ["}"]
        return L
    # tuples
    ts = parse_tuple(src)
    if ts and dst in VEC:
        d = VEC[dst]
        parts, flat, code = [], [], ["{"]
        for k, p in enumerate(ts):
            if p in PRIMS:
                code.append(draw_scalar(p, f"{v}s{k}"))
                parts.append(f"{v}s{k}")
                flat.append(f"{v}s{k}")
            elif p in VEC:
                c, lanes = draw_vec(VEC[p], f"{v}p{k}")
                code.append(c)
                parts.append(f"{v}p{k}")
                flat += lanes
            else:
                return None
        if len(flat) != d.dim:
            return None
        L.append(" ".join(code) + f" let r = {dst}::from(({', '.join(parts)}{',' if len(parts) == 1 else ''}));")
        L += [f'va!("From<{src}> for {dst}[{i}]", r.{LET[i]}.bits({flat[i]}));' for i in range(d.dim)] + ["}"]
        return L
    td = parse_tuple(dst)
    if td and src in VEC and all(p in PRIMS for p in td):
        s = VEC[src]
        code, lanes = draw_vec(s, v)
        L.append("{ " + code + f" let r: {dst} = {v}.into();")
        L += [f'va!("From<{src}> for tuple[{i}]", r.{i}.bits({lanes[i]}));' for i in range(s.dim)] + ["}"]
        return L
    return None
