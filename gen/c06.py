"""C06: column-vector / column-major conventions across every accessor (E1, bits) and product laws (E2-R, see e2_run)."""
import re
from kb import Harness, CFGS as KCFGS
from types_ import VEC, MATS, AXIS, LET, draw_vec, draw_mat, draw_scalar, repo_read

CFGS = {"quick": ["sse2", "scalar"], "thorough": ["sse2", "scalar"]}
BOUNDS = ("all entry bit patterns (NaN payloads, -0) and every index pair, all 11 matrix/affine types; Mat3A/Affine3A columns carry arbitrary hidden lanes; "
          "col/row/minor indices: every valid value concretely plus a fully symbolic out-of-range index that must panic")
ASSUMPTIONS = []


def ent(mv, m, c, r):
    """entry (r, c) of matrix value `mv` read through the column accessor / axis field"""
    if m.affine:
        return f"{mv}.{AXIS[c]}.{LET[r]}"
    return f"{mv}.col({c}).{LET[r]}"


def harnesses(tier, cfg):
    hs = []
    sse = KCFGS[cfg]["sse"]
    for m in MATS.values():
        src = repo_read(m.file(sse))
        has = lambda pat: re.search(pat, src, re.M) is not None
        M, sc, C, R, n = m.name, m.scalar, m.cols, m.rows, m.n
        zero = "0.0"

        def H(name, lines, desc, expect="pass", unwind=None):
            hs.append(Harness(f"c06_{m.lname}_{name}", "\n".join(lines), backend="sat", desc=desc, site=f"{M}::{name}", funcs=[f"{M}::{name}"], expect=expect, unwind=unwind))

        code, e = draw_mat(m, "a")
        # ---- readers: every accessor lists column 0 first and shows entry (r,c) at the same place
        L = [code, "let arr = a.to_cols_array(); let arr2 = a.to_cols_array_2d();", f"let mut sl = [{zero}; {n + 2}]; a.write_cols_to_slice(&mut sl);"]
        for c in range(C):
            for r in range(R):
                L.append(f'va!("{M}::to_cols_array[{c}*{R}+{r}]", arr[{c * R + r}].bits({e[c][r]}));')
                L.append(f'va!("{M}::to_cols_array_2d[{c}][{r}]", arr2[{c}][{r}].bits({e[c][r]}));')
                L.append(f'va!("{M}::write_cols_to_slice[{c * R + r}]", sl[{c * R + r}].bits({e[c][r]}));')
                L.append(f'va!("{M}.{AXIS[c]}.{LET[r]}", a.{AXIS[c]}.{LET[r]}.bits({e[c][r]}));')
                if not m.affine:
                    L.append(f'va!("{M}::col({c})[{r}]", a.col({c}).{LET[r]}.bits({e[c][r]}));')
                    L.append(f'va!("{M}::row({r})[{c}]", a.row({r}).{LET[c]}.bits({e[c][r]}));')
        L.append(f'va!("{M}::write_cols_to_slice leaves the rest", sl[{n}].bits({zero}) && sl[{n + 1}].bits({zero}));')
        if has(rf"^impl AsRef<\[{sc}; {n}\]> for {M} "):
            L.append(f"let rf: &[{sc}; {n}] = a.as_ref();")
            L += [f'va!("{M} AsRef[{c * R + r}]", rf[{c * R + r}].bits({e[c][r]}));' for c in range(C) for r in range(R)]
        if m.affine:
            lin = MATS[m.linear]
            fld = "matrix2" if R == 2 else "matrix3"
            for c in range(C - 1):
                L += [f'va!("{M}.{fld}.col({c})[{r}]", a.{fld}.col({c}).{LET[r]}.bits({e[c][r]}));' for r in range(R)]
            L += [f'va!("{M}.translation[{r}]", a.translation.{LET[r]}.bits({e[C - 1][r]}));' for r in range(R)]
        H("readers", L, f"{M}: to_cols_array / to_cols_array_2d / write_cols_to_slice / AsRef / col / row / axis fields all show entry (r,c) of column c at the column-major position, bit for bit")
        # ---- constructors are the inverses of the accessors
        flat = [e[c][r] for c in range(C) for r in range(R)]
        scal = " ".join(draw_scalar(sc, x) for x in flat)
        L = [scal, f"let m1 = {M}::from_cols_array(&[{', '.join(flat)}]);",
             f"let m2 = {M}::from_cols_array_2d(&[{', '.join('[' + ', '.join(e[c]) + ']' for c in range(C))}]);",
             f"let slc = [{', '.join(flat)}, {flat[0]}]; let m3 = {M}::from_cols_slice(&slc);"]
        for c in range(C):
            for r in range(R):
                L.append(f'va!("{M}::from_cols_array ({r},{c})", {ent("m1", m, c, r)}.bits({e[c][r]}));')
                L.append(f'va!("{M}::from_cols_array_2d ({r},{c})", {ent("m2", m, c, r)}.bits({e[c][r]}));')
                L.append(f'va!("{M}::from_cols_slice ({r},{c})", {ent("m3", m, c, r)}.bits({e[c][r]}));')
        L.append("let back = m1.to_cols_array();")
        L += [f'va!("{M} from/to_cols_array round trip [{i}]", back[{i}].bits({flat[i]}));' for i in range(n)]
        H("ctors", L, f"{M}: from_cols_array / from_cols_array_2d / from_cols_slice invert the accessors bit for bit")
        if m.affine:
            continue
        # ---- from_diagonal
        dv = {"Mat3A": VEC["Vec3"]}.get(M, m.colvec)
        cd, d = draw_vec(dv, "d")
        L = [cd, f"let m = {M}::from_diagonal(d);"]
        for c in range(C):
            for r in range(R):
                L.append(f'va!("{M}::from_diagonal ({r},{c})", {ent("m", m, c, r)}.bits({d[c] if r == c else zero}));')
        H("from_diagonal", L, f"{M}::from_diagonal puts its argument on the diagonal and +0 elsewhere")
        # ---- transpose
        L = [code, "let t = a.transpose();"]
        for c in range(C):
            for r in range(R):
                L.append(f'va!("{M}::transpose ({r},{c})", {ent("t", m, c, r)}.bits({e[r][c]}));')
        H("transpose", L, f"{M}::transpose swaps rows and columns exactly (bits), for arbitrary hidden lanes")
        # ---- col / row / col_mut index panics
        L0 = [code, f"let i = s.usize(); vassume!(i >= {C});", 'vcover!("PRE");']
        H("col_oob", L0 + ["let c = a.col(i);"], f"{M}::col panics for every index >= {C}", expect="panic")
        H("row_oob", L0 + ["let c = a.row(i);"], f"{M}::row panics for every index >= {R}", expect="panic")
        H("col_mut_oob", L0 + ["let mut b = a; let c = b.col_mut(i);"], f"{M}::col_mut panics for every index >= {C}", expect="panic")
        # col_mut writes exactly one column
        cw, w = draw_vec(m.colvec, "w")
        L = [code, cw, f"let i = s.usize(); vassume!(i < {C});", "let mut b = a; *b.col_mut(i) = w;"]
        for c in range(C):
            for r in range(R):
                L.append(f'va!("{M}::col_mut ({r},{c})", b.col({c}).{LET[r]}.bits(if i == {c} {{ {w[r]} }} else {{ {e[c][r]} }}));')
        H("col_mut", L, f"{M}::col_mut(i) with symbolic valid i aliases exactly column i")
        # ---- minor constructors
        for meth, srcM in minor_methods(M, src):
            sm = MATS[srcM]
            cs, se = draw_mat(sm, "p")
            L = [cs]
            for i in range(sm.cols):
                for j in range(sm.rows):
                    L.append(f"{{ let q = {M}::{meth}(p, {i}, {j});")
                    cc = [c for c in range(sm.cols) if c != i]
                    rr = [r for r in range(sm.rows) if r != j]
                    for c2, c in enumerate(cc):
                        for r2, r in enumerate(rr):
                            L.append(f'va!("{M}::{meth}({i},{j}) ({r2},{c2})", q.col({c2}).{LET[r2]}.bits({se[c][r]}));')
                    L.append("}")
            H(meth, L, f"{M}::{meth}(m, i, j) drops exactly column i and row j of the {srcM}, for every valid (i, j), bit for bit")
            H(meth + "_oob", [cs, f"let i = s.usize(); let j = s.usize(); vassume!(i >= {sm.cols} || j >= {sm.rows});", 'vcover!("PRE");', f"let q = {M}::{meth}(p, i, j);"],
              f"{M}::{meth} panics whenever i or j is out of range", expect="panic")
    return hs


def minor_methods(M, src):
    out = []
    for m in re.finditer(r"pub fn (from_mat\w*_minor)\(m: (\w+), i: usize, j: usize\)", src):
        out.append((m.group(1), m.group(2)))
    return out


# ---------------------------------------------------------------------------------------------
# E2-R: product laws
# ---------------------------------------------------------------------------------------------
def e2_kernels():
    import sys, os
    sys.path.insert(0, os.path.join(os.path.dirname(os.path.dirname(os.path.abspath(__file__))), "e2"))
    from run import K
    import ref as R
    ks = []
    for M, n, rd, vrd, vwr, elem in (("Mat2", 2, "m2", "v2", "wv2", 4), ("Mat3", 3, "m3", "v3", "wv3", 4), ("Mat3A", 3, "m3a", "v3a", "wv3a", 4), ("Mat4", 4, "m4", "v4", "wv4", 4),
                                     ("DMat2", 2, "dm2", "dv2", "wdv2", 8), ("DMat3", 3, "dm3", "dv3", "wdv3", 8), ("DMat4", 4, "dm4", "dv4", "wdv4", 8)):
        nn = n * n
        def ob(x, o, h, n=n, nn=nn, M=M):
            A, B, v = R.cols(x, 0, n, n), R.cols(x, nn, n, n), x[2 * nn:2 * nn + n]
            want = [R.sum_([v[c] * A[c][r] for c in range(n)]) for r in range(n)]
            return R.eq_all(h, o[0:n], want, f"{M}*v == sum_c v[c] col(c)") + [(f"(A*B)*v == A*(B*v) [{j}]", h.eq(o[n + j], o[2 * n + j])) for j in range(n)]
        ks.append(K(f"{M.lower()}_laws", 2 * nn + n, 3 * n, f"let a = {rd}(i, 0); let b = {rd}(i, {nn}); let v = {vrd}(i, {2 * nn}); {vwr}(o, 0, a * v); {vwr}(o, {n}, (a * b) * v); {vwr}(o, {2 * n}, a * (b * v));",
                    ob, elem=elem, site=f"{M}::product laws", desc=f"{M}: M*v is the combination of the columns weighted by v (column vectors, from the left); (A*B)*v == A*(B*v)", timeout=120))
    A3 = lambda x, b: R.cols(x, b, 4, 3)
    hom = lambda a: [a[0] + [0], a[1] + [0], a[2] + [0], a[3] + [1]]
    ks.append(K("affine3a_mul_mat4", 28, 32, "let a = a3(i, 0); let m = m4(i, 12); wm4(o, 0, a * m); wm4(o, 16, m * a);",
                lambda x, o, h: R.eq_all(h, o[:16], R.flat(R.matmul(hom(A3(x, 0)), R.cols(x, 12, 4, 4))), "Affine3A*Mat4") + R.eq_all(h, o[16:], R.flat(R.matmul(R.cols(x, 12, 4, 4), hom(A3(x, 0)))), "Mat4*Affine3A"),
                site="Affine3A*Mat4", desc="mixed Affine3A x Mat4 products are the homogeneous products for EVERY Mat4 (incl. projective ones)"))
    ks.append(K("affine3a_point", 15, 6, "let a = a3(i, 0); let p = v3(i, 12); wv3(o, 0, a.transform_point3(p)); wv3(o, 3, a.transform_vector3(p));",
                lambda x, o, h: R.eq_all(h, o[0:3], R.add(R.matvec(A3(x, 0)[:3], x[12:15]), A3(x, 0)[3]), "transform_point3 == linear*p + translation") +
                                R.eq_all(h, o[3:6], R.matvec(A3(x, 0)[:3], x[12:15]), "transform_vector3 ignores translation"), site="Affine3A::transform"))
    A2 = lambda x, b: R.cols(x, b, 3, 2)
    ks.append(K("affine2_point", 8, 4, "let a = a2(i, 0); let p = v2(i, 6); wv2(o, 0, a.transform_point2(p)); wv2(o, 2, a.transform_vector2(p));",
                lambda x, o, h: R.eq_all(h, o[0:2], R.add(R.matvec(A2(x, 0)[:2], x[6:8]), A2(x, 0)[2]), "transform_point2 == linear*p + translation") +
                                R.eq_all(h, o[2:4], R.matvec(A2(x, 0)[:2], x[6:8]), "transform_vector2 ignores translation"), site="Affine2::transform"))
    return ks


def e2_run(tier, seed):
    from e2glue import e2_run as _e2
    return _e2("C06", e2_kernels(), tier, seed, cfgs=("sse2", "scalar"))
