"""C06: column-vector / column-major conventions across every accessor (E1, bits) and product laws (E2-R, see e2_run)."""
import re
from kb import Harness, CFGS as KCFGS
from types_ import VEC, MATS, AXIS, LET, draw_vec, draw_mat, draw_scalar, repo_read

CFGS = {"quick": ["sse2", "scalar"], "thorough": ["sse2", "scalar"]}
BOUNDS = ("all entry bit patterns (NaN payloads, -0) and every index pair, all 11 matrix/affine types; Mat3A/Affine3A columns carry arbitrary hidden lanes; "
          "col/row/minor indices: every valid value concretely plus a fully symbolic out-of-range index that must panic")
ASSUMPTIONS = []


def ent(mv, m, c, r):
    """entry (r, c) of matrix value `mv` read through the column accessor / axis field"""
    if m.affine:
        return f"{mv}.{AXIS[c]}.{LET[r]}"
    return f"{mv}.col({c}).{LET[r]}"


def harnesses(tier, cfg):
    hs = []
    sse = KCFGS[cfg]["sse"]
    for m in MATS.values():
        src = repo_read(m.file(sse))
        has = lambda pat: re.search(pat, src, re.M) is not None
        M, sc, C, R, n = m.name, m.scalar, m.cols, m.rows, m.n
        zero = "0.0"

        def H(name, lines, desc, expect="pass", unwind=None):
            hs.append(Harness(f"c06_{m.lname}_{name}", "\n".join(lines), backend="sat", desc=desc, site=f"{M}::{name}", funcs=[f"{M}::{name}"], expect=expect, unwind=unwind))

        code, e = draw_mat(m, "a")
        # ---- readers: every accessor lists column 0 first and shows entry (r,c) at the same place
        L = [code, "let arr = a.to_cols_array(); let arr2 = a.to_cols_array_2d();", f"let mut sl = [{zero}; {n + 2}]; a.write_cols_to_slice(&mut sl);"]
        for c in range(C):
            for r in range(R):
                L.append(f'va!("{M}::to_cols_array[{c}*{R}+{r}]", arr[{c * R + r}].bits({e[c][r]}));')
                L.append(f'va!("{M}::to_cols_array_2d[{c}][{r}]", arr2[{c}][{r}].bits({e[c][r]}));')
                L.append(f'va!("{M}::write_cols_to_slice[{c * R + r}]", sl[{c * R + r}].bits({e[c][r]}));')
                L.append(f'va!("{M}.{AXIS[c]}.{LET[r]}", a.{AXIS[c]}.{LET[r]}.bits({e[c][r]}));')
                if not m.affine:
                    L.append(f'va!("{M}::col({c})[{r}]", a.col({c}).{LET[r]}.bits({e[c][r]}));')
                    L.append(f'va!("{M}::row({r})[{c}]", a.row({r}).{LET[c]}.bits({e[c][r]}));')
        L.append(f'va!("{M}::write_cols_to_slice leaves the rest", sl[{n}].bits({zero}) && sl[{n + 1}].bits({zero}));')
        if has(rf"^impl AsRef<\[{sc}; {n}\]> for {M} "):
            L.append(f"let rf: &[{sc}; {n}] = a.as_ref();")
            L += [f'va!("{M} AsRef[{c * R + r}]", rf[{c * R + r}].bits({e[c][r]}));' for c in range(C) for r in range(R)]
        if m.affine:
            lin = MATS[m.linear]
            fld = "matrix2" if R == 2 else "matrix3"
            for c in range(C - 1):
                L += [f'va!("{M}.{fld}.col({c})[{r}]", a.{fld}.col({c}).{LET[r]}.bits({e[c][r]}));' for r in range(R)]
            L += [f'va!("{M}.translation[{r}]", a.translation.{LET[r]}.bits({e[C - 1][r]}));' for r in range(R)]
        H("readers", L, f"{M}: to_cols_array / to_cols_array_2d / write_cols_to_slice / AsRef / col / row / axis fields all show entry (r,c) of column c at the column-major position, bit for bit")
        # ---- constructors are the inverses of the accessors
        flat = [e[c][r] for c in range(C) for r in range(R)]
        scal = " ".join(draw_scalar(sc, x) for x in flat)
        L = [scal, f"let m1 = {M}::from_cols_array(&[{', '.join(flat)}]);",
             f"let m2 = {M}::from_cols_array_2d(&[{', '.join('[' + ', '.join(e[c]) + ']' for c in range(C))}]);",
             f"let slc = [{', '.join(flat)}, {flat[0]}]; let m3 = {M}::from_cols_slice(&slc);"]
        for c in range(C):
            for r in range(R):
                L.append(f'va!("{M}::from_cols_array ({r},{c})", {ent("m1", m, c, r)}.bits({e[c][r]}));')
                L.append(f'va!("{M}::from_cols_array_2d ({r},{c})", {ent("m2", m, c, r)}.bits({e[c][r]}));')
                L.append(f'va!("{M}::from_cols_slice ({r},{c})", {ent("m3", m, c, r)}.bits({e[c][r]}));')
        L.append("let back = m1.to_cols_array();")
        L += [f'va!("{M} from/to_cols_array round trip [{i}]", back[{i}].bits({flat[i]}));' for i in range(n)]
        H("ctors", L, f"{M}: from_cols_array / from_cols_array_2d / from_cols_slice invert the accessors bit for bit")
        if m.affine:
            continue
        # ---- from_diagonal
        dv = {"Mat3A": VEC["Vec3"]}.get(M, m.colvec)
        cd, d = draw_vec(dv, "d")
        L = [cd, f"let m = {M}::from_diagonal(d);"]
        for c in range(C):
            for r in range(R):
                L.append(f'va!("{M}::from_diagonal ({r},{c})", {ent("m", m, c, r)}.bits({d[c] if r == c else zero}));')
        H("from_diagonal", L, f"{M}::from_diagonal puts its argument on the diagonal and +0 elsewhere")
        # ---- transpose
        L = [code, "let t = a.transpose();"]
        for c in range(C):
            for r in range(R):
                L.append(f'va!("{M}::transpose ({r},{c})", {ent("t", m, c, r)}.bits({e[r][c]}));')
        H("transpose", L, f"{M}::transpose swaps rows and columns exactly (bits), for arbitrary hidden lanes")
        # ---- col / row / col_mut index panics
        L0 = [code, f"let i = s.usize(); vassume!(i >= {C});", 'vcover!("PRE");']
        H("col_oob", L0 + ["let c = a.col(i);"], f"{M}::col panics for every index >= {C}", expect="panic")
        H("row_oob", L0 + ["let c = a.row(i);"], f"{M}::row panics for every index >= {R}", expect="panic")
        H("col_mut_oob", L0 + ["let mut b = a; let c = b.col_mut(i);"], f"{M}::col_mut panics for every index >= {C}", expect="panic")
        # col_mut writes exactly one column
        cw, w = draw_vec(m.colvec, "w")
        L = [code, cw, f"let i = s.usize(); vassume!(i < {C});", "let mut b = a; *b.col_mut(i) = w;"]
        for c in range(C):
            for r in range(R):
                L.append(f'va!("{M}::col_mut ({r},{c})", b.col({c}).{LET[r]}.bits(if i == {c} {{ {w[r]} }} else {{ {e[c][r]} }}));')
        H("col_mut", L, f"{M}::col_mut(i) with symbolic valid i aliases exactly column i")
        # ---- minor constructors
        for meth, srcM in minor_methods(M, src):
            sm = MATS[srcM]
            cs, se = draw_mat(sm, "p")
            L = [cs]
            for i in range(sm.cols):
                for j in range(sm.rows):
                    L.append(f"{{ let q = {M}::{meth}(p, {i}, {j});")
                    cc = [c for c in range(sm.cols) if c != i]
                    rr = [r for r in range(sm.rows) if r != j]
                    for c2, c in enumerate(cc):
                        for r2, r in enumerate(rr):
                            L.append(f'va!("{M}::{meth}({i},{j}) ({r2},{c2})", q.col({c2}).{LET[r2]}.bits({se[c][r]}));')
                    L.append("}")
            H(meth, L, f"{M}::{meth}(m, i, j) drops exactly column i and row j of the {srcM}, for every valid (i, j), bit for bit")
            H(meth + "_oob", [cs, f"let i = s.usize(); let j = s.usize(); vassume!(i >= {sm.cols} || j >= {sm.rows});", 'vcover!("PRE");', f"let q = {M}::{meth}(p, i, j);"],
              f"{M}::{meth} panics whenever i or j is out of range", expect="panic")
    return hs


def minor_methods(M, src):
    out = []
    for m in re.finditer(r"pub fn (from_mat\w*_minor)\(m: (\w+), i: usize, j: usize\)", src):
        out.append((m.group(1), m.group(2)))
    return out
