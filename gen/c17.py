"""C17: all element access paths of a vector or quaternion see the same N lanes (bits); one-step write lemma."""
import re, os
from kb import Harness, CFGS as KCFGS
from types_ import VEC, LET, SCALARS, draw_vec, draw_scalar, repo_read

CFGS = {"quick": ["sse2", "scalar"], "thorough": ["sse2", "scalar"]}
QUICK = ["Vec2", "Vec3", "Vec3A", "Vec4", "DVec2", "DVec3", "DVec4", "IVec2", "IVec3", "IVec4", "U8Vec3", "I16Vec4", "U64Vec2", "USizeVec3", "Quat", "DQuat"]
BOUNDS = ("all lane bit patterns incl. NaN payloads; Vec3A with an arbitrary hidden lane; the write lemma starts from an ARBITRARY value and performs one write at a symbolic "
          "lane index through each mutable path, then reads through every read path - sequences of writes of any length follow by induction (the pre-state is arbitrary); "
          "Debug ({:?}) and Display ({} and, for floats, {:.3}) are executed through core::fmt with the per-element number formatter replaced by a bit-exact stand-in (lane order, separators, brackets, type name and forwarding of the precision are decided; the digits core::fmt prints for a number are not; {:#?} and width/fill flags are outside the claim); quick tier: 16 representative types, thorough: all 42")
_SC_BITS = {"f32": "(v.to_bits() as u64)", "f64": "v.to_bits()"}
PRELUDE = r"""
/// collects the text produced by the formatting machinery (every piece is at most 20 bytes, the whole at most 160)
pub struct Sink { pub b: [u8; 160], pub n: usize, pub bad: bool }
impl Sink { pub fn new() -> Self { Sink { b: [0u8; 160], n: 0, bad: false } }
    pub fn push(&mut self, s: &[u8]) { if s.len() <= 20 && self.n + s.len() <= 160 { let mut i = 0; while i < s.len() { self.b[self.n + i] = s[i]; i += 1; } self.n += s.len(); } else { self.bad = true; } }
    pub fn same(&self, o: &Sink) -> bool { if self.bad || o.bad || self.n != o.n { return false; } let mut k = 0; while k < 8 { let mut i = 0; while i < 20 { if self.b[k * 20 + i] != o.b[k * 20 + i] { return false; } i += 1; } k += 1; } true }
}
impl core::fmt::Write for Sink { fn write_str(&mut self, s: &str) -> core::fmt::Result { self.push(s.as_bytes()); Ok(()) } }
/// stand-in for the element formatters of core::fmt (float / integer printing is not interpreted): the lane's bits as 16 hex digits,
/// the trait asked for (d = Display, g = Debug) and the precision forwarded, so the text identifies the lane bit for bit
pub fn lane_hex(bits: u64, prec: Option<usize>, tr: u8) -> [u8; 19] {
    const HEX: &[u8; 16] = b"0123456789abcdef";
    let mut buf = [0u8; 19];
    let mut i = 0;
    while i < 16 { buf[i] = HEX[((bits >> (60 - 4 * i)) & 15) as usize]; i += 1; }
    buf[16] = tr;
    buf[17] = b'p';
    buf[18] = match prec { None => b'-', Some(p) => HEX[p & 15] };
    buf
}
macro_rules! lane_fmt { ($t:ty, $disp:ident, $dbg:ident, $txt:ident, $bits:expr) => {
    pub fn $disp(v: &$t, f: &mut core::fmt::Formatter<'_>) -> core::fmt::Result { let b = lane_hex(($bits)(*v), f.precision(), b'd'); f.write_str(unsafe { core::str::from_utf8_unchecked(&b) }) }
    pub fn $dbg(v: &$t, f: &mut core::fmt::Formatter<'_>) -> core::fmt::Result { let b = lane_hex(($bits)(*v), f.precision(), b'g'); f.write_str(unsafe { core::str::from_utf8_unchecked(&b) }) }
    /// expected text of one lane: under the model checker the stand-in, natively (replay) what core::fmt really prints
    #[cfg(kani)] pub fn $txt(v: $t, prec: Option<usize>, dbg: bool) -> [u8; 19] { lane_hex(($bits)(v), prec, if dbg { b'g' } else { b'd' }) }
    #[cfg(not(kani))] pub fn $txt(v: $t, prec: Option<usize>, dbg: bool) -> Vec<u8> { (match (dbg, prec) { (true, _) => format!("{:?}", v), (false, None) => format!("{}", v), (false, Some(p)) => format!("{:.*}", p, v) }).into_bytes() }
} }
lane_fmt!(f32, stub_f32_display, stub_f32_debug, txt_f32, |v: f32| v.to_bits() as u64);
lane_fmt!(f64, stub_f64_display, stub_f64_debug, txt_f64, |v: f64| v.to_bits());
lane_fmt!(i8, stub_i8_display, stub_i8_debug, txt_i8, |v: i8| v as u64);
lane_fmt!(u8, stub_u8_display, stub_u8_debug, txt_u8, |v: u8| v as u64);
lane_fmt!(i16, stub_i16_display, stub_i16_debug, txt_i16, |v: i16| v as u64);
lane_fmt!(u16, stub_u16_display, stub_u16_debug, txt_u16, |v: u16| v as u64);
lane_fmt!(i32, stub_i32_display, stub_i32_debug, txt_i32, |v: i32| v as u64);
lane_fmt!(u32, stub_u32_display, stub_u32_debug, txt_u32, |v: u32| v as u64);
lane_fmt!(i64, stub_i64_display, stub_i64_debug, txt_i64, |v: i64| v as u64);
lane_fmt!(u64, stub_u64_display, stub_u64_debug, txt_u64, |v: u64| v as u64);
lane_fmt!(usize, stub_usize_display, stub_usize_debug, txt_usize, |v: usize| v as u64);
"""
ASSUMPTIONS = ["induction over write histories: each step is decided from an arbitrary pre-state, the composition argument is not mechanised"]


class QT:
    """quaternion pseudo vector type"""
    def __init__(self, name, scalar):
        self.name, self.scalar, self.dim, self.simd, self.hidden, self.float = name, scalar, 4, name == "Quat", False, True
        self.lname = name.lower()


def type_file(t, cfg):
    sse = KCFGS[cfg]["sse"]
    be = "sse2" if sse else "scalar"
    if t.name in ("Vec3A", "Vec4", "Quat"):
        return f"src/f32/{be}/{t.lname}.rs"
    if t.name == "DQuat":
        return "src/f64/dquat.rs"
    return f"src/{t.scalar}/{t.lname}.rs"


def harnesses(tier, cfg):
    hs = []
    types = list(VEC.values()) + [QT("Quat", "f32"), QT("DQuat", "f64")]
    for t in types:
        if tier == "quick" and t.name not in QUICK:
            continue
        hs += for_type(t, cfg)
    return hs


def draw(t, var):
    if t.name in ("Quat", "DQuat"):
        lanes = [f"{var}{i}" for i in range(4)]
        return " ".join(draw_scalar(t.scalar, l) for l in lanes) + f" let {var} = {t.name}::from_xyzw({', '.join(lanes)});", lanes
    return draw_vec(t, var)


def for_type(t, cfg):
    T, sc, N = t.name, t.scalar, t.dim
    src = repo_read(type_file(t, cfg))
    has = lambda pat: re.search(pat, src, re.M) is not None
    tup = "(" + ", ".join([sc] * N) + ")"
    H_index = has(rf"^impl Index<usize> for {T} ")
    H_indexmut = has(rf"^impl IndexMut<usize> for {T} ")
    H_asref = has(rf"^impl AsRef<\[{sc}; {N}\]> for {T} ")
    H_asmut = has(rf"^impl AsMut<\[{sc}; {N}\]> for {T} ")
    H_into_arr = has(rf"^impl From<{T}> for \[{sc}; {N}\]")
    H_into_tup = has(rf"^impl From<{T}> for \(")
    H_from_arr = has(rf"^impl From<\[{sc}; {N}\]> for {T} ")
    H_from_tup = has(rf"^impl From<\({sc}") and T not in ("Quat", "DQuat")
    H_with = has(r"pub fn with_x\(")
    isq = T in ("Quat", "DQuat")
    zero = "0.0" if t.float else "0"
    hs = []

    def readers(v, exp, tag):
        """every read path of value `v` must show lanes exp[0..N] (bits)"""
        L = []
        L += [f'va!("{tag} .{LET[i]}", {v}.{LET[i]}.bits({exp[i]}));' for i in range(N)]
        if H_index:
            L += [f'va!("{tag} [{i}]", {v}[{i}].bits({exp[i]}));' for i in range(N)]
        L.append(f"{{ let arr = {v}.to_array();")
        L += [f'va!("{tag} to_array[{i}]", arr[{i}].bits({exp[i]}));' for i in range(N)] + ["}"]
        L.append(f"{{ let mut sl = [{zero}; {N + 1}]; {v}.write_to_slice(&mut sl);")
        L += [f'va!("{tag} write_to_slice[{i}]", sl[{i}].bits({exp[i]}));' for i in range(N)] + [f'va!("{tag} write_to_slice leaves [N]", sl[{N}].bits({zero}));', "}"]
        if H_into_arr:
            L.append(f"{{ let arr: [{sc}; {N}] = {v}.into();")
            L += [f'va!("{tag} Into<array>[{i}]", arr[{i}].bits({exp[i]}));' for i in range(N)] + ["}"]
        if H_into_tup:
            L.append(f"{{ let tp: {tup} = {v}.into();")
            L += [f'va!("{tag} Into<tuple>.{i}", tp.{i}.bits({exp[i]}));' for i in range(N)] + ["}"]
        if H_asref:
            L.append(f"{{ let rf: &[{sc}; {N}] = {v}.as_ref();")
            L += [f'va!("{tag} AsRef[{i}]", rf[{i}].bits({exp[i]}));' for i in range(N)] + ["}"]
        return L

    def H(name, lines, desc):
        hs.append(Harness(f"c17_{t.lname}_{name}", "\n".join(lines), backend="sat", desc=desc, site=f"{T}::{name}", funcs=[f"{T}::{name}"]))

    # (a) constructors x readers
    code, a = draw(t, "a")
    H("new", [code] + readers("a", a, f"{T}::new"), f"{T}::{'from_xyzw' if isq else 'new'} (Vec3A via from_vec4 with arbitrary hidden lane) x every read path: same lanes, bit for bit")
    al = ", ".join(a)
    scal = " ".join(draw_scalar(sc, x) for x in a)
    ctor = []
    if not isq:
        ctor.append(("splat", f"let k = s.{sc}(); let v = {T}::splat(k);", ["k"] * N))
        ctor.append(("free_fn", f"{scal} let v = {t.lname}({al});", a))
        ctor.append(("new_plain", f"{scal} let v = {T}::new({al});", a))
    else:
        ctor.append(("free_fn", f"{scal} let v = {t.lname}({al});", a))
        ctor.append(("from_vec4", f"{scal} let v = {T}::from_vec4({'Vec4' if sc == 'f32' else 'DVec4'}::new({al}));", a))
    ctor.append(("from_array", f"{scal} let v = {T}::from_array([{al}]);", a))
    ctor.append(("from_slice", f"{scal} let sl = [{al}, {a[0]}]; let v = {T}::from_slice(&sl);", a))
    if H_from_arr:
        ctor.append(("from_arr_trait", f"{scal} let v: {T} = [{al}].into();", a))
    if H_from_tup:
        ctor.append(("from_tuple", f"{scal} let v: {T} = ({al}).into();", a))
    for nm, c, exp in ctor:
        H(nm, [c] + readers("v", exp, f"{T}::{nm}"), f"{T} constructor {nm} x every read path")
    # named constants
    consts = []
    if not isq:
        one, neg = ("1.0", "-1.0") if t.float else ("1", "-1")
        consts.append(("ZERO", [zero] * N))
        consts.append(("ONE", [one] * N))
        for k in range(N):
            consts.append((LET[k].upper(), [one if j == k else zero for j in range(N)]))
        if has(r"pub const NEG_ONE"):
            consts.append(("NEG_ONE", [neg] * N))
            for k in range(N):
                consts.append((f"NEG_{LET[k].upper()}", [neg if j == k else zero for j in range(N)]))
        if has(r"pub const MIN:"):
            consts.append(("MIN", [f"{sc}::MIN"] * N))
            consts.append(("MAX", [f"{sc}::MAX"] * N))
        if has(r"pub const INFINITY"):
            consts.append(("INFINITY", [f"{sc}::INFINITY"] * N))
            consts.append(("NEG_INFINITY", [f"{sc}::NEG_INFINITY"] * N))
    else:
        consts.append(("IDENTITY", ["0.0", "0.0", "0.0", "1.0"]))
    lines = []
    for cn, exp in consts:
        if not has(rf"pub const {cn}:"):
            continue
        lines.append(f"{{ let c = {T}::{cn};")
        lines += [f'va!("{T}::{cn}.{LET[i]}", c.{LET[i]}.bits({exp[i]}));' for i in range(N)]
        lines += [f'va!("{T}::{cn} to_array", c.to_array()[{i}].bits({exp[i]}));' for i in range(N)]
        lines.append("}")
    if not isq and has(r"pub const AXES"):
        lines.append(f"let ax = {T}::AXES;")
        one = "1.0" if t.float else "1"
        for k in range(N):
            lines += [f'va!("{T}::AXES[{k}][{j}]", ax[{k}].{LET[j]}.bits({one if j == k else zero}));' for j in range(N)]
    H("consts", lines, f"{T}: named constants have the documented lane values through field access and to_array")
    # (a') Debug / Display: order, separators and forwarding of the precision; element printing replaced by a bit-exact stand-in
    code, a = draw(t, "a")
    forms = [("display", "{}", "None", False), ("debug", "{:?}", "None", True)]
    if t.float:
        forms.append(("display_prec", "{:.3}", "Some(3)", False))
    for nm, fmt_, prec, dbg in forms:
        L = [code, "use core::fmt::Write as _;", "let mut sk = Sink::new();",
             f'let r = write!(sk, "{fmt_}", a); va!("{T} {nm} ok", r.is_ok());', "let mut ex = Sink::new();"]
        if dbg:
            L.append(f'ex.push(b"{T}"); ex.push(b"(");')
        else:
            L.append('ex.push(b"[");')
        for i in range(N):
            if i:
                L.append('ex.push(b", ");')
            L.append(f"ex.push(&txt_{sc}({a[i]}, {prec}, {'true' if dbg else 'false'}));")
        L.append('ex.push(b")");' if dbg else 'ex.push(b"]");')
        L.append(f'va!("{T} {nm} text", sk.same(&ex));')
        hs.append(Harness(f"c17_{t.lname}_{nm}", "\n".join(L), backend="sat",
                          desc=f"{T} {'Debug' if dbg else 'Display'} ({fmt_}): the text is the {'type name and (' if dbg else '['} lanes 0..N-1 in order, ', '-separated, with the {sc} element formatter replaced by a bit-exact stand-in (core::fmt number printing is not interpreted); natively replayed against the real formatter",
                          site=f"{T}::{nm}", funcs=[f"<{T} as {'Debug' if dbg else 'Display'}>::fmt"], unwind=22, cap=300,
                          extra_stubs=[(f"<{sc} as core::fmt::Display>::fmt", f"stub_{sc}_display"), (f"<{sc} as core::fmt::Debug>::fmt", f"stub_{sc}_debug")]))
        if t.float:
            # witness twin (run only when the harness above fails): lanes restricted to values whose printed forms differ, so that the counterexample also shows
            # with the real number formatter in the native replay (two NaN payloads, or 1e-9 and 2e-9 at precision 3, print alike)
            pre = [f"vassume!({x}.is_finite() && {x}.abs() >= 1.0 && {x}.abs() <= 1000.0);" for x in a]
            pre += [f"vassume!(({a[i]} - {a[j]}).abs() >= 1.0);" for i in range(N) for j in range(i + 1, N)]
            hs[-1].fallback = f"c17_{t.lname}_{nm}_w"
            hs.append(Harness(f"c17_{t.lname}_{nm}_w", "\n".join([L[0]] + pre + L[1:]), backend="sat", desc=f"{T} {nm}: witness search with print-distinct lanes (on demand)",
                              site=f"{T}::{nm}", funcs=[f"<{T} as {'Debug' if dbg else 'Display'}>::fmt"], unwind=22, cap=300, extra_stubs=hs[-1].extra_stubs))
            hs[-1].on_demand = True
    # (b) one-step write lemma from an arbitrary pre-state
    code, a = draw(t, "a")
    base = [code, f"let tv = s.{sc}(); let k = s.usize(); vassume!(k < {N});"]
    exp = [f"(if k == {i} {{ tv }} else {{ {a[i]} }})" for i in range(N)]
    wr = []
    fld = " ".join(f"if k == {i} {{ v.{LET[i]} = tv; }}" for i in range(N))
    wr.append(("write_field", f"let mut v = a; {fld}"))
    if H_indexmut:
        wr.append(("write_indexmut", "let mut v = a; v[k] = tv;"))
    if H_asmut:
        wr.append(("write_asmut", f"let mut v = a; {{ let m: &mut [{sc}; {N}] = v.as_mut(); m[k] = tv; }}"))
    if H_with:
        w = " else ".join(f"if k == {i} {{ a.with_{LET[i]}(tv) }}" for i in range(N)) + " else { a }"
        wr.append(("write_with", f"let v = {w};"))
    for nm, c in wr:
        H(nm, base + [c] + readers("v", exp, f"{T} {nm}"),
          f"{T}: one write through {nm} at a symbolic lane k of an arbitrary value changes exactly lane k as seen through every read path (inductive step for any write history)")
    return hs
