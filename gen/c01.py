"""C01: element-wise float vector ops equal the per-lane IEEE primitive (value equality: -0 == +0, NaN ~ NaN)."""
from kb import Harness
from kb import CFGS as KCFGS
CFG_SSE = {k: v["sse"] for k, v in KCFGS.items()}
from types_ import VEC, LET, FLOAT_VECS, draw_vec, draw_scalar

CFGS = {"quick": ["sse2", "scalar"], "thorough": ["sse2", "scalar"]}   # (the libm math back end is not claimed)
QUICK_TYPES = ["Vec2", "Vec3", "Vec3A", "Vec4", "DVec2", "DVec3", "DVec4"]
BOUNDS = ("all operand lanes are unconstrained bit patterns (NaN payloads not compared: NaN ~ NaN, -0 == +0); min/max/clamp and horizontal min/max "
          "asserted on non-NaN lanes only; Sum/Product over arrays of exactly 3 elements (unwind 5); exp/powf/div_euclid/rem_euclid: the math shim is an "
          "uninterpreted function, so the obligation is lane wiring to the shim; `%`: decided against the primitive on sub-domains D1 (|a|<|b| finite) and "
          "D2 (small integers) plus a full-domain SAT counterexample search under the cap; NEON/wasm32/core-simd not compiled")
ASSUMPTIONS = ["Kani's model of f32/f64 arithmetic, fma, floor/ceil/trunc/round is IEEE-754 RNE as implemented by CBMC",
               "lane-wise stubs for _mm_{add,sub,mul}_ps, _mm_add_ss, _mm_{min,max}_ps, _mm_cmp*_ps, _mm_cvttps_epi32, _mm_cvtepi32_ps (Intel SDM semantics)",
               "exp/powf/div_euclid/rem_euclid shims modelled as uninterpreted functions (glam::f32::math::* and f64)"]


def harnesses(tier, cfg):
    hs = []
    types = [VEC[n] for n in QUICK_TYPES]
    for t in types:
        hs += for_type(t, tier, cfg)
    return hs


def lanes_assert(t, tag, rexpr, ref, eq="same", guard=None):
    out = [f"let r = {rexpr};"]
    for i in range(t.dim):
        a = f'va!("{tag}[{i}]", r.{LET[i]}.{eq}({ref(i)}));'
        if guard:
            a = f"if {guard(i)} {{ {a} }}"
        out.append(a)
    return out


def for_type(t, tier, cfg):
    T, sc, N = t.name, t.scalar, t.dim
    sfx = "32" if sc == "f32" else "64"
    uff = "f" if sc == "f32" else ""
    hs = []

    def H(op, draws, lines, backend="sat", uf=(), unwind=None, site=None, extra_stubs=(), cap=None, desc=None):
        code = []
        for kind, var in draws:
            if kind == "v":
                code.append(draw_vec(t, var)[0])
            else:
                code.append(draw_scalar(sc, var))
        hs.append(Harness(f"c01_{t.lname}_{op}", "\n".join(code + lines), backend=backend, uf=uf, unwind=unwind,
                          desc=desc or f"{T}::{op}: every output lane == primitive on that lane's operands (value equality), all inputs",
                          funcs=[f"{T}::{op}"], site=site or f"{T}::{op}", extra_stubs=extra_stubs, cap=cap))

    nn = lambda *vs: (lambda i: " && ".join(f"!{v}{i}.is_nan()" for v in vs))
    # ---- arithmetic operators: vector∘vector, vector∘scalar, scalar∘vector, assign forms, reference forms
    for opn, sym in (("add", "+"), ("sub", "-"), ("mul", "*"), ("div", "/")):
        be = "smt"
        H(f"{opn}_vv", [("v", "a"), ("v", "b")], lanes_assert(t, f"{T} {sym} {T}", f"a {sym} b", lambda i: f"a{i} {sym} b{i}"), be, site=f"{T}::{opn}")
        H(f"{opn}_vs", [("v", "a"), ("s", "k")], lanes_assert(t, f"{T} {sym} {sc}", f"a {sym} k", lambda i: f"a{i} {sym} k"), be, site=f"{T}::{opn}")
        H(f"{opn}_sv", [("v", "a"), ("s", "k")], lanes_assert(t, f"{sc} {sym} {T}", f"k {sym} a", lambda i: f"k {sym} a{i}"), be, site=f"{T}::{opn}")
        H(f"{opn}_assign_v", [("v", "a"), ("v", "b")], lanes_assert(t, f"{T} {sym}= {T}", f"{{ let mut r = a; r {sym}= b; r }}", lambda i: f"a{i} {sym} b{i}"), be, site=f"{T}::{opn}")
        H(f"{opn}_assign_s", [("v", "a"), ("s", "k")], lanes_assert(t, f"{T} {sym}= {sc}", f"{{ let mut r = a; r {sym}= k; r }}", lambda i: f"a{i} {sym} k"), be, site=f"{T}::{opn}")
        if tier == "thorough":
            for nm, ex in (("rr", f"&a {sym} &b"), ("vr", f"a {sym} &b"), ("rv", f"&a {sym} b")):
                H(f"{opn}_{nm}", [("v", "a"), ("v", "b")], lanes_assert(t, f"{T} {sym} {T} ({nm})", ex, lambda i: f"a{i} {sym} b{i}"), be, site=f"{T}::{opn}")
            for nm, ex in (("rsr", f"&a {sym} &k"), ("vsr", f"a {sym} &k"), ("rs", f"&a {sym} k")):
                H(f"{opn}_{nm}", [("v", "a"), ("s", "k")], lanes_assert(t, f"{T} {sym} {sc} ({nm})", ex, lambda i: f"a{i} {sym} k"), be, site=f"{T}::{opn}")
            for nm, ex in (("srr", f"&k {sym} &a"), ("svr", f"k {sym} &a"), ("srv", f"&k {sym} a")):
                H(f"{opn}_{nm}", [("v", "a"), ("s", "k")], lanes_assert(t, f"{sc} {sym} {T} ({nm})", ex, lambda i: f"k {sym} a{i}"), be, site=f"{T}::{opn}")
            H(f"{opn}_assign_vr", [("v", "a"), ("v", "b")], lanes_assert(t, f"{T} {sym}= &{T}", f"{{ let mut r = a; r {sym}= &b; r }}", lambda i: f"a{i} {sym} b{i}"), be, site=f"{T}::{opn}")
            H(f"{opn}_assign_sr", [("v", "a"), ("s", "k")], lanes_assert(t, f"{T} {sym}= &{sc}", f"{{ let mut r = a; r {sym}= &k; r }}", lambda i: f"a{i} {sym} k"), be, site=f"{T}::{opn}")
    # `%`: CBMC models float `%` as IEEE remainder (round-to-nearest quotient: -5 % 3 -> 1), which is not Rust's fmod, so E1 cannot
    # interpret it. The `%` clause is decided by E2 (frem as an uninterpreted function on the LLVM IR), see e2_run below.
    # ---- unary
    H("neg", [("v", "a")], lanes_assert(t, f"-{T}", "-a", lambda i: f"-a{i}"))
    for m, ref in (("abs", lambda i: f"a{i}.abs()"), ("signum", lambda i: f"a{i}.signum()"),
                   ("floor", lambda i: f"a{i}.floor()"), ("ceil", lambda i: f"a{i}.ceil()"),
                   ("trunc", lambda i: f"a{i}.trunc()"), ("round", lambda i: f"a{i}.round()")):
        H(m, [("v", "a")], lanes_assert(t, f"{T}::{m}", f"a.{m}()", ref))
    H("recip", [("v", "a")], lanes_assert(t, f"{T}::recip", "a.recip()", lambda i: f"1.0 / a{i}"), "smt")
    # fract = self - trunc(self), fract_gl = self - floor(self): trunc/floor == primitive is decided above; here the rounding kernel is
    # replaced by an uninterpreted function (scalar shim or the SSE2 m128_* kernel), so the obligation is "a[i] - kernel(a[i])" and goes to SMT
    for m, k in (("fract", "trunc"), ("fract_gl", "floor")):
        st = [(f"glam::{sc}::math::{k}", f"crate::uf_{k}{sfx}")]
        if t.simd and CFG_SSE[cfg]:
            st.append((f"glam::sse2::m128_{k}", f"crate::uf_m128_{k}"))
        H(m, [("v", "a")], lanes_assert(t, f"{T}::{m}", f"a.{m}()", lambda i: f"a{i} - crate::uf_{k}{sfx}(a{i})"), "smt", extra_stubs=st,
          desc=f"{T}::{m} lane == a[i] - {k}(a[i]) with {k} an uninterpreted function ({k} == primitive decided separately)")
    H("exp", [("v", "a")], lanes_assert(t, f"{T}::exp", "a.exp()", lambda i: f"uf::exp{uff}(a{i})"), "sat", uf=("exp",))
    H("powf", [("v", "a"), ("s", "k")], lanes_assert(t, f"{T}::powf", "a.powf(k)", lambda i: f"uf::pow{'f' if sc=='f32' else ''}(a{i}, k)"), "sat", uf=("powf",))
    # ---- binary methods
    H("copysign", [("v", "a"), ("v", "b")], lanes_assert(t, f"{T}::copysign", "a.copysign(b)", lambda i: f"a{i}.copysign(b{i})"))
    H("min", [("v", "a"), ("v", "b")], lanes_assert(t, f"{T}::min", "a.min(b)", lambda i: f"a{i}.min(b{i})", guard=nn("a", "b")))
    H("max", [("v", "a"), ("v", "b")], lanes_assert(t, f"{T}::max", "a.max(b)", lambda i: f"a{i}.max(b{i})", guard=nn("a", "b")))
    H("clamp", [("v", "a"), ("v", "b"), ("v", "c")],
      lanes_assert(t, f"{T}::clamp", "a.clamp(b, c)", lambda i: f"a{i}.clamp(b{i}, c{i})",
                   guard=lambda i: f"!a{i}.is_nan() && b{i} <= c{i}"))
    ma = [(f"glam::{sc}::math::mul_add", f"crate::uf_fma{sfx}")]
    H("mul_add", [("v", "a"), ("v", "b"), ("v", "c")], lanes_assert(t, f"{T}::mul_add", "a.mul_add(b, c)", lambda i: f"crate::uf_fma{sfx}(a{i}, b{i}, c{i})"), "sat", extra_stubs=ma,
      desc=f"{T}::mul_add lane == fused-multiply-add shim (uninterpreted) of that lane's operands")
    hs[-1].fallback = f"c01_{t.lname}_mul_add_interp"
    # interpreted twin: only decided when the uninterpreted harness fails and its model does not reproduce (counterexample search)
    H("mul_add_interp", [("v", "a"), ("v", "b"), ("v", "c")], lanes_assert(t, f"{T}::mul_add", "a.mul_add(b, c)", lambda i: f"a{i}.mul_add(b{i}, c{i})"), "sat",
      site=f"{T}::mul_add", desc=f"{T}::mul_add vs primitive mul_add, interpreted (counterexample search only)")
    hs[-1].on_demand = True
    de = [(f"glam::{sc}::math::div_euclid", f"crate::uf_div_euclid{sfx}"), (f"glam::{sc}::math::rem_euclid", f"crate::uf_rem_euclid{sfx}")]
    H("div_euclid", [("v", "a"), ("v", "b")], lanes_assert(t, f"{T}::div_euclid", "a.div_euclid(b)", lambda i: f"crate::uf_div_euclid{sfx}(a{i}, b{i})"), "sat", extra_stubs=de)
    H("rem_euclid", [("v", "a"), ("v", "b")], lanes_assert(t, f"{T}::rem_euclid", "a.rem_euclid(b)", lambda i: f"crate::uf_rem_euclid{sfx}(a{i}, b{i})"), "sat", extra_stubs=de)
    # ---- comparisons -> masks
    for m, sym in (("cmpeq", "=="), ("cmpne", "!="), ("cmplt", "<"), ("cmple", "<="), ("cmpgt", ">"), ("cmpge", ">=")):
        lines = [f"let r = a.{m}(b);"] + [f'va!("{T}::{m}[{i}]", r.test({i}) == (a{i} {sym} b{i}));' for i in range(N)]
        lines.append(f'va!("{T}::{m}.bitmask", r.bitmask() == ({" | ".join(f"(((a{i} {sym} b{i}) as u32) << {i})" for i in range(N))}));')
        H(m, [("v", "a"), ("v", "b")], lines)
    H("eq", [("v", "a"), ("v", "b")], [f'va!("{T} ==", (a == b) == ({" && ".join(f"a{i} == b{i}" for i in range(N))}));',
                                       f'va!("{T} !=", (a != b) == ({" || ".join(f"a{i} != b{i}" for i in range(N))}));'])
    H("is_nan", [("v", "a")], [f'va!("{T}::is_nan", a.is_nan() == ({" || ".join(f"a{i}.is_nan()" for i in range(N))}));'] +
      ["let r = a.is_nan_mask();"] + [f'va!("{T}::is_nan_mask[{i}]", r.test({i}) == a{i}.is_nan());' for i in range(N)])
    H("is_finite", [("v", "a")], [f'va!("{T}::is_finite", a.is_finite() == ({" && ".join(f"a{i}.is_finite()" for i in range(N))}));'] +
      ["let r = a.is_finite_mask();"] + [f'va!("{T}::is_finite_mask[{i}]", r.test({i}) == a{i}.is_finite());' for i in range(N)])
    H("is_negative_bitmask", [("v", "a")],
      [f'va!("{T}::is_negative_bitmask", a.is_negative_bitmask() == ({" | ".join(f"((a{i}.is_sign_negative() as u32) << {i})" for i in range(N))}));'])
    H("abs_diff_eq", [("v", "a"), ("v", "b"), ("s", "e")],
      [f'va!("{T}::abs_diff_eq", a.abs_diff_eq(b, e) == ({" && ".join(f"((a{i} - b{i}).abs() <= e)" for i in range(N))}));'], "smt")
    # ---- horizontal min/max and positions on non-NaN lanes
    allnn = " && ".join(f"!a{i}.is_nan()" for i in range(N))
    fold = lambda f: "a0" + "".join(f".{f}(a{i})" for i in range(1, N))
    lines = [f"if {allnn} {{",
             f'va!("{T}::min_element", a.min_element().same({fold("min")}));',
             f'va!("{T}::max_element", a.max_element().same({fold("max")}));']
    # first index attaining the min / max
    lines.append(f"let mn = {fold('min')}; let mx = {fold('max')};")
    first_min = "".join(f"if a{i} == mn {{ {i} }} else " for i in range(N - 1)) + f"{{ {N-1} }}"
    first_max = "".join(f"if a{i} == mx {{ {i} }} else " for i in range(N - 1)) + f"{{ {N-1} }}"
    lines.append(f'va!("{T}::min_position", a.min_position() == ({first_min}));')
    lines.append(f'va!("{T}::max_position", a.max_position() == ({first_max}));')
    lines.append("}")
    H("hminmax", [("v", "a")], lines, desc=f"{T}::min_element/max_element/min_position/max_position on non-NaN lanes == fold of f32::min/max and first index attaining it")
    # ---- Sum / Product over iterators: left folds from ZERO / ONE
    zero, one = ("0.0", "1.0")
    lines = ["let arr = [a, b, c];"]
    lines += lanes_assert(t, f"Sum<{T}>", f"arr.iter().copied().sum::<{T}>()", lambda i: f"(({zero} + a{i}) + b{i}) + c{i}")
    H("sum", [("v", "a"), ("v", "b"), ("v", "c")], lines, "smt", unwind=5, desc=f"Sum<{T}> over 3 elements == left fold of + from 0 per lane")
    lines = ["let arr = [a, b, c];"]
    lines += lanes_assert(t, f"Sum<&{T}>", f"arr.iter().sum::<{T}>()", lambda i: f"(({zero} + a{i}) + b{i}) + c{i}")
    H("sum_ref", [("v", "a"), ("v", "b"), ("v", "c")], lines, "smt", unwind=5)
    lines = ["let arr = [a, b, c];"]
    lines += lanes_assert(t, f"Product<{T}>", f"arr.iter().copied().product::<{T}>()", lambda i: f"(({one} * a{i}) * b{i}) * c{i}")
    H("product", [("v", "a"), ("v", "b"), ("v", "c")], lines, "smt", unwind=5, desc=f"Product<{T}> over 3 elements == left fold of * from 1 per lane")
    lines = ["let arr = [a, b, c];"]
    lines += lanes_assert(t, f"Product<&{T}>", f"arr.iter().product::<{T}>()", lambda i: f"(({one} * a{i}) * b{i}) * c{i}")
    H("product_ref", [("v", "a"), ("v", "b"), ("v", "c")], lines, "smt", unwind=5)
    return hs


PRELUDE = r'''
#[cfg(kani)] extern "C" {
    fn __CPROVER_uninterpreted_div_euclidf(x: f32, y: f32) -> f32;
    fn __CPROVER_uninterpreted_rem_euclidf(x: f32, y: f32) -> f32;
    fn __CPROVER_uninterpreted_div_euclid(x: f64, y: f64) -> f64;
    fn __CPROVER_uninterpreted_rem_euclid(x: f64, y: f64) -> f64;
}
#[cfg(kani)] extern "C" { fn __CPROVER_uninterpreted_truncf(x: f32) -> f32; fn __CPROVER_uninterpreted_trunc(x: f64) -> f64; fn __CPROVER_uninterpreted_floorf(x: f32) -> f32; fn __CPROVER_uninterpreted_floor(x: f64) -> f64; }
#[cfg(kani)] pub fn uf_trunc32(x: f32) -> f32 { unsafe { __CPROVER_uninterpreted_truncf(x) } }
#[cfg(kani)] pub fn uf_trunc64(x: f64) -> f64 { unsafe { __CPROVER_uninterpreted_trunc(x) } }
#[cfg(kani)] pub fn uf_floor32(x: f32) -> f32 { unsafe { __CPROVER_uninterpreted_floorf(x) } }
#[cfg(kani)] pub fn uf_floor64(x: f64) -> f64 { unsafe { __CPROVER_uninterpreted_floor(x) } }
#[cfg(not(kani))] pub fn uf_trunc32(x: f32) -> f32 { x.trunc() }
#[cfg(not(kani))] pub fn uf_trunc64(x: f64) -> f64 { x.trunc() }
#[cfg(not(kani))] pub fn uf_floor32(x: f32) -> f32 { x.floor() }
#[cfg(not(kani))] pub fn uf_floor64(x: f64) -> f64 { x.floor() }
#[cfg(all(kani, target_arch = "x86_64"))] pub unsafe fn uf_m128_trunc(v: core::arch::x86_64::__m128) -> core::arch::x86_64::__m128 {
    let a: [f32; 4] = core::mem::transmute(v); core::mem::transmute([uf_trunc32(a[0]), uf_trunc32(a[1]), uf_trunc32(a[2]), uf_trunc32(a[3])]) }
#[cfg(all(kani, target_arch = "x86_64"))] pub unsafe fn uf_m128_floor(v: core::arch::x86_64::__m128) -> core::arch::x86_64::__m128 {
    let a: [f32; 4] = core::mem::transmute(v); core::mem::transmute([uf_floor32(a[0]), uf_floor32(a[1]), uf_floor32(a[2]), uf_floor32(a[3])]) }
#[cfg(kani)] extern "C" { fn __CPROVER_uninterpreted_fmaf(x: f32, y: f32, z: f32) -> f32; fn __CPROVER_uninterpreted_fma(x: f64, y: f64, z: f64) -> f64; }
#[cfg(kani)] pub fn uf_fma32(x: f32, y: f32, z: f32) -> f32 { unsafe { __CPROVER_uninterpreted_fmaf(x, y, z) } }
#[cfg(kani)] pub fn uf_fma64(x: f64, y: f64, z: f64) -> f64 { unsafe { __CPROVER_uninterpreted_fma(x, y, z) } }
#[cfg(not(kani))] pub fn uf_fma32(x: f32, y: f32, z: f32) -> f32 { x.mul_add(y, z) }
#[cfg(not(kani))] pub fn uf_fma64(x: f64, y: f64, z: f64) -> f64 { x.mul_add(y, z) }
#[cfg(kani)] pub fn uf_div_euclid32(x: f32, y: f32) -> f32 { unsafe { __CPROVER_uninterpreted_div_euclidf(x, y) } }
#[cfg(kani)] pub fn uf_rem_euclid32(x: f32, y: f32) -> f32 { unsafe { __CPROVER_uninterpreted_rem_euclidf(x, y) } }
#[cfg(kani)] pub fn uf_div_euclid64(x: f64, y: f64) -> f64 { unsafe { __CPROVER_uninterpreted_div_euclid(x, y) } }
#[cfg(kani)] pub fn uf_rem_euclid64(x: f64, y: f64) -> f64 { unsafe { __CPROVER_uninterpreted_rem_euclid(x, y) } }
#[cfg(not(kani))] pub fn uf_div_euclid32(x: f32, y: f32) -> f32 { x.div_euclid(y) }
#[cfg(not(kani))] pub fn uf_rem_euclid32(x: f32, y: f32) -> f32 { x.rem_euclid(y) }
#[cfg(not(kani))] pub fn uf_div_euclid64(x: f64, y: f64) -> f64 { x.div_euclid(y) }
#[cfg(not(kani))] pub fn uf_rem_euclid64(x: f64, y: f64) -> f64 { x.rem_euclid(y) }
'''


# ---------------------------------------------------------------------------------------------
# float `%` is decided by E2: on the optimised LLVM IR of each build every output lane must be `frem(a[i], b[i])` of that lane's operands
# (frem is LLVM's fmod, i.e. Rust's `%`; it is kept as an uninterpreted function, so the obligation is "is syntactically the primitive remainder")
# ---------------------------------------------------------------------------------------------
def e2_kernels():
    import sys, os
    sys.path.insert(0, os.path.join(os.path.dirname(os.path.dirname(os.path.abspath(__file__))), "e2"))
    from run import K
    ks = []
    VT = [("Vec2", "v2", "wv2", 2, 2, 4), ("Vec3", "v3", "wv3", 3, 3, 4), ("Vec3A", "v3ah", "wv3a", 3, 4, 4), ("Vec4", "v4", "wv4", 4, 4, 4),
          ("DVec2", "dv2", "wdv2", 2, 2, 8), ("DVec3", "dv3", "wdv3", 3, 3, 8), ("DVec4", "dv4", "wdv4", 4, 4, 8)]
    for T, rd, wr, n, w, elem in VT:
        f1 = "f" if elem == 4 else "d"
        def ob(x, o, h, n=n, w=w, T=T):
            obs = [(f"{T} % {T} lane {j} == a[{j}] % b[{j}]", h.eq(o[j], h.uf("frem", x[j], x[w + j]))) for j in range(n)]
            k = x[2 * w]
            obs += [(f"{T} % scalar lane {j}", h.eq(o[n + j], h.uf("frem", x[j], k))) for j in range(n)]
            obs += [(f"scalar % {T} lane {j}", h.eq(o[2 * n + j], h.uf("frem", k, x[j]))) for j in range(n)]
            obs += [(f"{T} %= {T} lane {j}", h.eq(o[3 * n + j], h.uf("frem", x[j], x[w + j]))) for j in range(n)]
            return obs
        ks.append(K(f"{T.lower()}_rem", 2 * w + 1, 4 * n,
                    f"let a = {rd}(i, 0); let b = {rd}(i, {w}); let k = {f1}(i, {2 * w}); {wr}(o, 0, a % b); {wr}(o, {n}, a % k); {wr}(o, {2 * n}, k % a); let mut c = a; c %= b; {wr}(o, {3 * n}, c);",
                    ob, elem=elem, site=f"{T}::rem", desc=f"{T} % (vector, scalar, scalar-lhs, assign forms): every lane is the primitive remainder (frem) of that lane's operands"))
    return ks


def e2_run(tier, seed):
    """`%`: syntactic obligation on the mode-U term DAG (robust against implementations the mode-R encoder cannot read, e.g. bit-trick floors), native replay on mismatch"""
    import sys, os, math, json
    VERIF = os.path.dirname(os.path.dirname(os.path.abspath(__file__)))
    sys.path.insert(0, os.path.join(VERIF, "e2"))
    import run as e2run, ir
    ks = e2_kernels()
    VTW = {"vec2": (2, 2), "vec3": (3, 3), "vec3a": (3, 4), "vec4": (4, 4), "dvec2": (2, 2), "dvec3": (3, 3), "dvec4": (4, 4)}
    for k in ks:
        n, w = VTW[k.name.split("_")[0]]
        def terms(n=n, w=w):
            I = lambda j: ir.T("in", j)
            return [ir.T("frem", I(j), I(w + j)) for j in range(n)] + [ir.T("frem", I(j), I(2 * w)) for j in range(n)] + [ir.T("frem", I(2 * w), I(j)) for j in range(n)] + [ir.T("frem", I(j), I(w + j)) for j in range(n)]
        def num(xs, n=n, w=w):
            fm = lambda a, b: math.fmod(a, b) if (b != 0 and not math.isinf(a) and not math.isnan(a) and not math.isnan(b)) else float("nan")
            return [fm(xs[j], xs[w + j]) for j in range(n)] + [fm(xs[j], xs[2 * w]) for j in range(n)] + [fm(xs[2 * w], xs[j]) for j in range(n)] + [fm(xs[j], xs[w + j]) for j in range(n)]
        k.expect_terms, k.expect_num = terms, num
    out = []
    for cfg in ("sse2", "scalar"):
        try:
            rs = e2run.run_syntactic("c01", cfg, ks, seed=seed)
        except Exception as e:
            out.append(dict(site=f"e2-build-{cfg}", status="broken", detail=str(e)[:600], cfg=cfg, secs=0))
            continue
        for r in rs:
            if r["status"] == "fail":
                path = os.path.join(VERIF, "evidence", "replays", "C01", f"e2-{r['kernel']}-{cfg}.json")
                os.makedirs(os.path.dirname(path), exist_ok=True)
                json.dump(dict(property="C01", engine="E2-U", kernel=r["kernel"], cfg=cfg, inputs=r.get("inputs"), detail=r["detail"]), open(path, "w"), indent=1)
                r["replay_path"] = path
            out.append(r)
    return out
