// Shared support code of every generated harness crate (included with #[path]).
// Compiled twice: by Kani's rustc (cfg(kani)) for the solver, and natively for replay.
#![allow(dead_code, unused_imports, clippy::all)]

/// Number of 64-bit input words every harness draws from. Unused words are sliced away.
pub const NIN: usize = 64;

/// Input source: a fixed array of 64-bit words, consumed in order with a *concrete* cursor.
/// Under Kani the array is one `kani::any()`; natively it is the replayed counterexample.
pub struct Src<'a> {
    d: &'a [u64; NIN],
    i: usize,
}
impl<'a> Src<'a> {
    #[inline(always)]
    pub fn new(d: &'a [u64; NIN]) -> Self {
        Src { d, i: 0 }
    }
    #[inline(always)]
    pub fn u64(&mut self) -> u64 {
        let v = self.d[self.i];
        self.i += 1;
        v
    }
    #[inline(always)] pub fn u32(&mut self) -> u32 { self.u64() as u32 }
    #[inline(always)] pub fn u16(&mut self) -> u16 { self.u64() as u16 }
    #[inline(always)] pub fn u8(&mut self) -> u8 { self.u64() as u8 }
    #[inline(always)] pub fn i64(&mut self) -> i64 { self.u64() as i64 }
    #[inline(always)] pub fn i32(&mut self) -> i32 { self.u64() as i32 }
    #[inline(always)] pub fn i16(&mut self) -> i16 { self.u64() as i16 }
    #[inline(always)] pub fn i8(&mut self) -> i8 { self.u64() as i8 }
    #[inline(always)] pub fn usize(&mut self) -> usize { self.u64() as usize }
    #[inline(always)] pub fn f32(&mut self) -> f32 { f32::from_bits(self.u64() as u32) }
    #[inline(always)] pub fn f64(&mut self) -> f64 { f64::from_bits(self.u64()) }
    #[inline(always)] pub fn bool(&mut self) -> bool { (self.u64() & 1) == 1 }
}

/// value equality of the properties: -0 == +0, NaN ~ NaN
#[inline(always)] pub fn same32(a: f32, b: f32) -> bool { a == b || (a != a && b != b) }
#[inline(always)] pub fn same64(a: f64, b: f64) -> bool { a == b || (a != a && b != b) }
#[inline(always)] pub fn bits32(a: f32, b: f32) -> bool { a.to_bits() == b.to_bits() }
#[inline(always)] pub fn bits64(a: f64, b: f64) -> bool { a.to_bits() == b.to_bits() }

pub trait Lane: Copy {
    fn same(self, o: Self) -> bool;
    fn bits(self, o: Self) -> bool;
}
impl Lane for f32 { #[inline(always)] fn same(self, o: f32) -> bool { same32(self, o) } #[inline(always)] fn bits(self, o: f32) -> bool { bits32(self, o) } }
impl Lane for f64 { #[inline(always)] fn same(self, o: f64) -> bool { same64(self, o) } #[inline(always)] fn bits(self, o: f64) -> bool { bits64(self, o) } }
macro_rules! lane_int { ($($t:ty),*) => { $(impl Lane for $t { #[inline(always)] fn same(self, o: $t) -> bool { self == o } #[inline(always)] fn bits(self, o: $t) -> bool { self == o } })* } }
lane_int!(i8, u8, i16, u16, i32, u32, i64, u64, usize, bool);

/// harness assumption; natively an early return (the replay then reports "assumption not met")
#[cfg(kani)]
#[macro_export]
macro_rules! vassume {
    ($c:expr) => {
        kani::assume($c)
    };
}
#[cfg(not(kani))]
#[macro_export]
macro_rules! vassume {
    ($c:expr) => {
        if !($c) {
            $crate::support::ASSUME_FAILED.with(|c| c.set(true));
            return;
        }
    };
}
#[cfg(not(kani))]
thread_local! { pub static ASSUME_FAILED: core::cell::Cell<bool> = core::cell::Cell::new(false); }

// ---------------------------------------------------------------------------------------------
// Uninterpreted functions. Under Kani/CBMC `__CPROVER_uninterpreted_*` is a function application
// (congruence only). Natively they are the real functions, so that a replay runs the real code.
// ---------------------------------------------------------------------------------------------
#[cfg(kani)]
extern "C" {
    fn __CPROVER_uninterpreted_sqrtf(x: f32) -> f32;
    fn __CPROVER_uninterpreted_sqrt(x: f64) -> f64;
    fn __CPROVER_uninterpreted_sinf(x: f32) -> f32;
    fn __CPROVER_uninterpreted_cosf(x: f32) -> f32;
    fn __CPROVER_uninterpreted_sin(x: f64) -> f64;
    fn __CPROVER_uninterpreted_cos(x: f64) -> f64;
    fn __CPROVER_uninterpreted_tanf(x: f32) -> f32;
    fn __CPROVER_uninterpreted_tan(x: f64) -> f64;
    fn __CPROVER_uninterpreted_atan2f(y: f32, x: f32) -> f32;
    fn __CPROVER_uninterpreted_atan2(y: f64, x: f64) -> f64;
    fn __CPROVER_uninterpreted_expf(x: f32) -> f32;
    fn __CPROVER_uninterpreted_exp(x: f64) -> f64;
    fn __CPROVER_uninterpreted_powf(x: f32, y: f32) -> f32;
    fn __CPROVER_uninterpreted_pow(x: f64, y: f64) -> f64;
    fn __CPROVER_uninterpreted_acosf(x: f32) -> f32;
    fn __CPROVER_uninterpreted_acos(x: f64) -> f64;
    fn __CPROVER_uninterpreted_asinf(x: f32) -> f32;
    fn __CPROVER_uninterpreted_asin(x: f64) -> f64;
    fn __CPROVER_uninterpreted_sh_fmaf(x: f32, y: f32, z: f32) -> f32;
    fn __CPROVER_uninterpreted_sh_fma(x: f64, y: f64, z: f64) -> f64;
    fn __CPROVER_uninterpreted_sh_div_euclidf(x: f32, y: f32) -> f32;
    fn __CPROVER_uninterpreted_sh_div_euclid(x: f64, y: f64) -> f64;
    fn __CPROVER_uninterpreted_sh_rem_euclidf(x: f32, y: f32) -> f32;
    fn __CPROVER_uninterpreted_sh_rem_euclid(x: f64, y: f64) -> f64;
}
pub mod uf {
    #[cfg(kani)]
    use super::*;
    macro_rules! uf1 { ($name:ident, $c:ident, $t:ty, $native:expr) => {
        #[cfg(kani)] #[inline(never)] pub fn $name(x: $t) -> $t { unsafe { $c(x) } }
        #[cfg(not(kani))] #[inline(always)] pub fn $name(x: $t) -> $t { let f: fn($t) -> $t = $native; f(x) }
    } }
    macro_rules! uf2 { ($name:ident, $c:ident, $t:ty, $native:expr) => {
        #[cfg(kani)] #[inline(never)] pub fn $name(x: $t, y: $t) -> $t { unsafe { $c(x, y) } }
        #[cfg(not(kani))] #[inline(always)] pub fn $name(x: $t, y: $t) -> $t { let f: fn($t, $t) -> $t = $native; f(x, y) }
    } }
    uf1!(sqrtf, __CPROVER_uninterpreted_sqrtf, f32, |x| x.sqrt());
    uf1!(sqrt, __CPROVER_uninterpreted_sqrt, f64, |x| x.sqrt());
    uf1!(sinf, __CPROVER_uninterpreted_sinf, f32, |x| x.sin());
    uf1!(cosf, __CPROVER_uninterpreted_cosf, f32, |x| x.cos());
    uf1!(sin, __CPROVER_uninterpreted_sin, f64, |x| x.sin());
    uf1!(cos, __CPROVER_uninterpreted_cos, f64, |x| x.cos());
    uf1!(tanf, __CPROVER_uninterpreted_tanf, f32, |x| x.tan());
    uf1!(tan, __CPROVER_uninterpreted_tan, f64, |x| x.tan());
    uf1!(expf, __CPROVER_uninterpreted_expf, f32, |x| x.exp());
    uf1!(exp, __CPROVER_uninterpreted_exp, f64, |x| x.exp());
    uf1!(acosf, __CPROVER_uninterpreted_acosf, f32, |x| x.acos());
    uf1!(acos, __CPROVER_uninterpreted_acos, f64, |x| x.acos());
    uf1!(asinf, __CPROVER_uninterpreted_asinf, f32, |x| x.asin());
    uf1!(asin, __CPROVER_uninterpreted_asin, f64, |x| x.asin());
    uf2!(atan2f, __CPROVER_uninterpreted_atan2f, f32, |y, x| y.atan2(x));
    uf2!(atan2, __CPROVER_uninterpreted_atan2, f64, |y, x| y.atan2(x));
    uf2!(powf, __CPROVER_uninterpreted_powf, f32, |x, y| x.powf(y));
    uf2!(pow, __CPROVER_uninterpreted_pow, f64, |x, y| x.powf(y));
    uf2!(div_euclidf, __CPROVER_uninterpreted_sh_div_euclidf, f32, |x, y| x.div_euclid(y));
    uf2!(div_euclid, __CPROVER_uninterpreted_sh_div_euclid, f64, |x, y| x.div_euclid(y));
    uf2!(rem_euclidf, __CPROVER_uninterpreted_sh_rem_euclidf, f32, |x, y| x.rem_euclid(y));
    uf2!(rem_euclid, __CPROVER_uninterpreted_sh_rem_euclid, f64, |x, y| x.rem_euclid(y));
    #[cfg(kani)] #[inline(never)] pub fn fmaf(x: f32, y: f32, z: f32) -> f32 { unsafe { __CPROVER_uninterpreted_sh_fmaf(x, y, z) } }
    #[cfg(not(kani))] pub fn fmaf(x: f32, y: f32, z: f32) -> f32 { x.mul_add(y, z) }
    #[cfg(kani)] #[inline(never)] pub fn fma(x: f64, y: f64, z: f64) -> f64 { unsafe { __CPROVER_uninterpreted_sh_fma(x, y, z) } }
    #[cfg(not(kani))] pub fn fma(x: f64, y: f64, z: f64) -> f64 { x.mul_add(y, z) }
    pub fn sin_cosf(x: f32) -> (f32, f32) { (sinf(x), cosf(x)) }
    pub fn sin_cos(x: f64) -> (f64, f64) { (sin(x), cos(x)) }
}

// ---------------------------------------------------------------------------------------------
// Lane-wise models (Intel SDM pseudo-code) of the x86 intrinsics Kani 0.68 has no model for, or
// instruments with a bogus integer-overflow check (float simd_add/sub/mul). Part of every SSE2 claim.
// ---------------------------------------------------------------------------------------------
#[cfg(all(kani, target_arch = "x86_64"))]
pub mod stubs {
    use core::arch::x86_64::*;
    use core::mem::transmute as tm;
    #[inline(always)] fn f(a: __m128) -> [f32; 4] { unsafe { tm(a) } }
    #[inline(always)] fn m(a: [f32; 4]) -> __m128 { unsafe { tm(a) } }
    #[inline(always)] fn fi(a: __m128i) -> [i32; 4] { unsafe { tm(a) } }
    #[inline(always)] fn mi(a: [i32; 4]) -> __m128i { unsafe { tm(a) } }
    #[inline(always)] fn mk(c: bool) -> f32 { f32::from_bits(if c { 0xffff_ffff } else { 0 }) }
    macro_rules! lanewise2 { ($name:ident, |$a:ident, $b:ident| $e:expr) => {
        pub unsafe fn $name(a: __m128, b: __m128) -> __m128 {
            let (a, b) = (f(a), f(b));
            let g = |$a: f32, $b: f32| -> f32 { $e };
            m([g(a[0], b[0]), g(a[1], b[1]), g(a[2], b[2]), g(a[3], b[3])])
        }
    } }
    lanewise2!(mm_add_ps, |a, b| a + b);
    lanewise2!(mm_sub_ps, |a, b| a - b);
    lanewise2!(mm_mul_ps, |a, b| a * b);
    lanewise2!(mm_div_ps, |a, b| a / b);
    // MINPS/MAXPS: second operand if either is NaN or both are zero
    lanewise2!(mm_min_ps, |a, b| if a < b { a } else { b });
    lanewise2!(mm_max_ps, |a, b| if a > b { a } else { b });
    lanewise2!(mm_cmpeq_ps, |a, b| mk(a == b));
    lanewise2!(mm_cmpneq_ps, |a, b| mk(!(a == b)));
    lanewise2!(mm_cmplt_ps, |a, b| mk(a < b));
    lanewise2!(mm_cmple_ps, |a, b| mk(a <= b));
    lanewise2!(mm_cmpgt_ps, |a, b| mk(a > b));
    lanewise2!(mm_cmpge_ps, |a, b| mk(a >= b));
    lanewise2!(mm_cmpunord_ps, |a, b| mk(a != a || b != b));
    lanewise2!(mm_cmpord_ps, |a, b| mk(a == a && b == b));
    lanewise2!(mm_cmpnlt_ps, |a, b| mk(!(a < b)));
    lanewise2!(mm_cmpnle_ps, |a, b| mk(!(a <= b)));
    lanewise2!(mm_cmpngt_ps, |a, b| mk(!(a > b)));
    lanewise2!(mm_cmpnge_ps, |a, b| mk(!(a >= b)));
    pub unsafe fn mm_add_ss(a: __m128, b: __m128) -> __m128 {
        let (a, b) = (f(a), f(b));
        m([a[0] + b[0], a[1], a[2], a[3]])
    }
    #[inline(always)]
    fn cvtt(x: f32) -> i32 {
        if x >= -2147483648.0 && x < 2147483648.0 { x as i32 } else { i32::MIN }
    }
    pub unsafe fn mm_cvttps_epi32(a: __m128) -> __m128i {
        let a = f(a);
        mi([cvtt(a[0]), cvtt(a[1]), cvtt(a[2]), cvtt(a[3])])
    }
    pub unsafe fn mm_cvtepi32_ps(a: __m128i) -> __m128 {
        let a = fi(a);
        m([a[0] as f32, a[1] as f32, a[2] as f32, a[3] as f32])
    }
    /// sqrt as an uninterpreted function (shared with the scalar shim stub)
    pub unsafe fn mm_sqrt_ps_uf(a: __m128) -> __m128 {
        let a = f(a);
        m([super::uf::sqrtf(a[0]), super::uf::sqrtf(a[1]), super::uf::sqrtf(a[2]), super::uf::sqrtf(a[3])])
    }
    /// sqrt interpreted (CBMC's exact sqrtf model)
    pub unsafe fn mm_sqrt_ps_exact(a: __m128) -> __m128 {
        let a = f(a);
        m([a[0].sqrt(), a[1].sqrt(), a[2].sqrt(), a[3].sqrt()])
    }
    pub unsafe fn mm_fmadd_ps(a: __m128, b: __m128, c: __m128) -> __m128 {
        let (a, b, c) = (f(a), f(b), f(c));
        m([a[0].mul_add(b[0], c[0]), a[1].mul_add(b[1], c[1]), a[2].mul_add(b[2], c[2]), a[3].mul_add(b[3], c[3])])
    }
}

/// stubs for glam's private math shims (f32 and f64): uninterpreted versions
pub mod shim {
    use super::uf;
    pub fn sqrt32(x: f32) -> f32 { uf::sqrtf(x) }
    pub fn sqrt64(x: f64) -> f64 { uf::sqrt(x) }
    pub fn sin32(x: f32) -> f32 { uf::sinf(x) }
    pub fn sin64(x: f64) -> f64 { uf::sin(x) }
    pub fn cos32(x: f32) -> f32 { uf::cosf(x) }
    pub fn cos64(x: f64) -> f64 { uf::cos(x) }
    pub fn sin_cos32(x: f32) -> (f32, f32) { uf::sin_cosf(x) }
    pub fn sin_cos64(x: f64) -> (f64, f64) { uf::sin_cos(x) }
    pub fn tan32(x: f32) -> f32 { uf::tanf(x) }
    pub fn tan64(x: f64) -> f64 { uf::tan(x) }
    pub fn atan2_32(y: f32, x: f32) -> f32 { uf::atan2f(y, x) }
    pub fn atan2_64(y: f64, x: f64) -> f64 { uf::atan2(y, x) }
    pub fn exp32(x: f32) -> f32 { uf::expf(x) }
    pub fn exp64(x: f64) -> f64 { uf::exp(x) }
    pub fn powf32(x: f32, y: f32) -> f32 { uf::powf(x, y) }
    pub fn powf64(x: f64, y: f64) -> f64 { uf::pow(x, y) }
    pub fn mul_add32(x: f32, y: f32, z: f32) -> f32 { uf::fmaf(x, y, z) }
    pub fn mul_add64(x: f64, y: f64, z: f64) -> f64 { uf::fma(x, y, z) }
    pub fn div_euclid32(x: f32, y: f32) -> f32 { uf::div_euclidf(x, y) }
    pub fn div_euclid64(x: f64, y: f64) -> f64 { uf::div_euclid(x, y) }
    pub fn rem_euclid32(x: f32, y: f32) -> f32 { uf::rem_euclidf(x, y) }
    pub fn rem_euclid64(x: f64, y: f64) -> f64 { uf::rem_euclid(x, y) }
    pub fn acos_approx32(x: f32) -> f32 { uf::acosf(x) }
    pub fn acos_approx64(x: f64) -> f64 { uf::acos(x) }
}
