#!/bin/bash
# usage: tools/seedrun.sh <patch.diff> <check args...>   -- applies the patch to /repo, runs ./check, always reverts
set -u
p=$(realpath $1); shift
cd /repo && git diff --quiet || { echo "/repo not clean"; exit 9; }
git -C /repo apply "$p" || { echo "patch does not apply"; exit 9; }
cd /verif && ./check "$@"; rc=$?
git -C /repo checkout -- . 
echo "seedrun rc=$rc"
exit $rc
