"""C19: serialisation and interop round-trip every value (serde via an exact in-memory token stream, bytemuck, mint). rkyv and JSON text are not decided."""
import re
from kb import Harness, CFGS as KCFGS
from types_ import VEC, MATS, LET, SCALARS, draw_vec, draw_mat, draw_scalar, repo_read

CFGS = {"quick": ["feat", "feats"], "thorough": ["feat", "feats"]}
BOUNDS = ("features serde + bytemuck + mint on the SSE2 build (cfg feat) and the scalar-math build (cfg feats). serde: every vector, mask, quaternion, matrix and affine type is driven "
          "through an exact in-memory token Serializer (records the declared tuple-struct length and each scalar's type and bits) and Deserializer (symbolic token values, symbolic "
          "length 0..N+2): serialises as exactly N scalars in lane / column-major order, all element bit patterns; deserialises Ok with bit-identical lanes exactly when the length is N. "
          "Both builds are proved equal to the same reference sequence, hence to each other. bytemuck: for every `unsafe impl Pod` found in impl_bytemuck.rs: no padding "
          "(size_of == N * size_of elem), cast to [elem; N] and back is the identity on all bit patterns with elements in lane order, zeroed() is the zero value. mint: to-and-from is the "
          "identity; ColumnMatrixN carries the same columns, RowMatrixN entry (r,c) == glam entry (r,c). NOT decided: rkyv (archive/validation machinery), serde_json text.")
ASSUMPTIONS = ["the in-memory Serializer/Deserializer stand for every serde data format that preserves scalars exactly", "trailing tokens are rejected by the format (as serde_json does), not by glam"]

PRELUDE = r'''
use serde::ser::{self, Serialize, Serializer, SerializeTupleStruct, Impossible};
use serde::de::{self, Deserialize, Deserializer, SeqAccess, Visitor, DeserializeSeed};
#[derive(Debug)] pub struct E;
impl core::fmt::Display for E { fn fmt(&self, _f: &mut core::fmt::Formatter<'_>) -> core::fmt::Result { Ok(()) } }
impl std::error::Error for E {}
impl ser::Error for E { fn custom<T: core::fmt::Display>(_m: T) -> Self { E } }
impl de::Error for E { fn custom<T: core::fmt::Display>(_m: T) -> Self { E } }
pub const TF32: u8 = 1; pub const TF64: u8 = 2; pub const TBOOL: u8 = 3;
pub const TI8: u8 = 10; pub const TI16: u8 = 11; pub const TI32: u8 = 12; pub const TI64: u8 = 13; pub const TU8: u8 = 20; pub const TU16: u8 = 21; pub const TU32: u8 = 22; pub const TU64: u8 = 23;
pub struct Rec { pub declared: usize, pub n: usize, pub tag: [u8; 20], pub val: [u64; 20], pub ended: bool }
impl Rec { pub fn new() -> Self { Rec { declared: 99, n: 0, tag: [0; 20], val: [0; 20], ended: false } } fn push(&mut self, t: u8, v: u64) { if self.n < 20 { self.tag[self.n] = t; self.val[self.n] = v; } self.n += 1; } }
macro_rules! reject { ($($m:ident($($a:ident: $t:ty),*) -> $r:ty;)*) => { $(fn $m(self $(, $a: $t)*) -> Result<$r, E> { Err(E) })* } }
pub struct TopSer<'a>(pub &'a mut Rec);
impl<'a> Serializer for TopSer<'a> {
    type Ok = (); type Error = E;
    type SerializeSeq = Impossible<(), E>; type SerializeTuple = Impossible<(), E>; type SerializeTupleStruct = Fields<'a>; type SerializeTupleVariant = Impossible<(), E>;
    type SerializeMap = Impossible<(), E>; type SerializeStruct = Impossible<(), E>; type SerializeStructVariant = Impossible<(), E>;
    fn serialize_tuple_struct(self, _name: &'static str, len: usize) -> Result<Fields<'a>, E> { self.0.declared = len; Ok(Fields(self.0)) }
    reject! { serialize_bool(v: bool) -> (); serialize_i8(v: i8) -> (); serialize_i16(v: i16) -> (); serialize_i32(v: i32) -> (); serialize_i64(v: i64) -> (); serialize_u8(v: u8) -> (); serialize_u16(v: u16) -> ();
        serialize_u32(v: u32) -> (); serialize_u64(v: u64) -> (); serialize_f32(v: f32) -> (); serialize_f64(v: f64) -> (); serialize_char(v: char) -> (); serialize_str(v: &str) -> (); serialize_bytes(v: &[u8]) -> ();
        serialize_none() -> (); serialize_unit() -> (); serialize_unit_struct(n: &'static str) -> (); serialize_unit_variant(n: &'static str, i: u32, v: &'static str) -> ();
        serialize_seq(l: Option<usize>) -> Impossible<(), E>; serialize_tuple(l: usize) -> Impossible<(), E>; serialize_tuple_variant(n: &'static str, i: u32, v: &'static str, l: usize) -> Impossible<(), E>;
        serialize_map(l: Option<usize>) -> Impossible<(), E>; serialize_struct(n: &'static str, l: usize) -> Impossible<(), E>; serialize_struct_variant(n: &'static str, i: u32, v: &'static str, l: usize) -> Impossible<(), E>; }
    fn collect_str<T: ?Sized + core::fmt::Display>(self, _v: &T) -> Result<(), E> { Err(E) }
    fn serialize_some<T: ?Sized + Serialize>(self, _v: &T) -> Result<(), E> { Err(E) }
    fn serialize_newtype_struct<T: ?Sized + Serialize>(self, _n: &'static str, _v: &T) -> Result<(), E> { Err(E) }
    fn serialize_newtype_variant<T: ?Sized + Serialize>(self, _n: &'static str, _i: u32, _v: &'static str, _x: &T) -> Result<(), E> { Err(E) }
}
pub struct Fields<'a>(&'a mut Rec);
impl<'a> SerializeTupleStruct for Fields<'a> { type Ok = (); type Error = E;
    fn serialize_field<T: ?Sized + Serialize>(&mut self, v: &T) -> Result<(), E> { v.serialize(Scalar(self.0)) }
    fn end(self) -> Result<(), E> { self.0.ended = true; Ok(()) } }
pub struct Scalar<'a>(&'a mut Rec);
impl<'a> Serializer for Scalar<'a> {
    type Ok = (); type Error = E;
    type SerializeSeq = Impossible<(), E>; type SerializeTuple = Impossible<(), E>; type SerializeTupleStruct = Impossible<(), E>; type SerializeTupleVariant = Impossible<(), E>;
    type SerializeMap = Impossible<(), E>; type SerializeStruct = Impossible<(), E>; type SerializeStructVariant = Impossible<(), E>;
    fn serialize_bool(self, v: bool) -> Result<(), E> { self.0.push(TBOOL, v as u64); Ok(()) }
    fn serialize_i8(self, v: i8) -> Result<(), E> { self.0.push(TI8, v as u8 as u64); Ok(()) } fn serialize_i16(self, v: i16) -> Result<(), E> { self.0.push(TI16, v as u16 as u64); Ok(()) }
    fn serialize_i32(self, v: i32) -> Result<(), E> { self.0.push(TI32, v as u32 as u64); Ok(()) } fn serialize_i64(self, v: i64) -> Result<(), E> { self.0.push(TI64, v as u64); Ok(()) }
    fn serialize_u8(self, v: u8) -> Result<(), E> { self.0.push(TU8, v as u64); Ok(()) } fn serialize_u16(self, v: u16) -> Result<(), E> { self.0.push(TU16, v as u64); Ok(()) }
    fn serialize_u32(self, v: u32) -> Result<(), E> { self.0.push(TU32, v as u64); Ok(()) } fn serialize_u64(self, v: u64) -> Result<(), E> { self.0.push(TU64, v); Ok(()) }
    fn serialize_f32(self, v: f32) -> Result<(), E> { self.0.push(TF32, v.to_bits() as u64); Ok(()) } fn serialize_f64(self, v: f64) -> Result<(), E> { self.0.push(TF64, v.to_bits()); Ok(()) }
    reject! { serialize_char(v: char) -> (); serialize_str(v: &str) -> (); serialize_bytes(v: &[u8]) -> (); serialize_none() -> (); serialize_unit() -> (); serialize_unit_struct(n: &'static str) -> ();
        serialize_unit_variant(n: &'static str, i: u32, v: &'static str) -> (); serialize_seq(l: Option<usize>) -> Impossible<(), E>; serialize_tuple(l: usize) -> Impossible<(), E>;
        serialize_tuple_struct(n: &'static str, l: usize) -> Impossible<(), E>; serialize_tuple_variant(n: &'static str, i: u32, v: &'static str, l: usize) -> Impossible<(), E>;
        serialize_map(l: Option<usize>) -> Impossible<(), E>; serialize_struct(n: &'static str, l: usize) -> Impossible<(), E>; serialize_struct_variant(n: &'static str, i: u32, v: &'static str, l: usize) -> Impossible<(), E>; }
    fn collect_str<T: ?Sized + core::fmt::Display>(self, _v: &T) -> Result<(), E> { Err(E) }
    fn serialize_some<T: ?Sized + Serialize>(self, _v: &T) -> Result<(), E> { Err(E) }
    fn serialize_newtype_struct<T: ?Sized + Serialize>(self, _n: &'static str, _v: &T) -> Result<(), E> { Err(E) }
    fn serialize_newtype_variant<T: ?Sized + Serialize>(self, _n: &'static str, _i: u32, _v: &'static str, _x: &T) -> Result<(), E> { Err(E) }
}
// ---- deserializer over a token slice
pub struct TopDe<'a> { pub tag: u8, pub val: &'a [u64], pub len: usize }
impl<'de, 'a> Deserializer<'de> for TopDe<'a> {
    type Error = E;
    fn deserialize_any<V: Visitor<'de>>(self, _v: V) -> Result<V::Value, E> { Err(E) }
    fn deserialize_tuple_struct<V: Visitor<'de>>(self, _name: &'static str, _len: usize, visitor: V) -> Result<V::Value, E> {
        let mut seq = Seq { tag: self.tag, val: self.val, len: self.len, pos: 0 };
        let r = visitor.visit_seq(&mut seq)?;
        if seq.pos != seq.len { return Err(E); }   // trailing tokens: rejected by the format
        Ok(r)
    }
    serde::forward_to_deserialize_any! { bool i8 i16 i32 i64 u8 u16 u32 u64 f32 f64 char str string bytes byte_buf option unit unit_struct newtype_struct seq tuple map struct enum identifier ignored_any }
}
pub struct Seq<'a> { tag: u8, val: &'a [u64], len: usize, pos: usize }
impl<'de, 'a, 'b> SeqAccess<'de> for &'b mut Seq<'a> {
    type Error = E;
    fn next_element_seed<T: DeserializeSeed<'de>>(&mut self, seed: T) -> Result<Option<T::Value>, E> {
        if self.pos < self.len { let v = self.val[self.pos]; self.pos += 1; seed.deserialize(ScalarDe { tag: self.tag, v }).map(Some) } else { Ok(None) }
    }
}
pub struct ScalarDe { tag: u8, v: u64 }
impl<'de> Deserializer<'de> for ScalarDe {
    type Error = E;
    fn deserialize_any<V: Visitor<'de>>(self, visitor: V) -> Result<V::Value, E> {
        match self.tag { TF32 => visitor.visit_f32(f32::from_bits(self.v as u32)), TF64 => visitor.visit_f64(f64::from_bits(self.v)), TBOOL => visitor.visit_bool(self.v & 1 == 1),
            TI8 => visitor.visit_i8(self.v as i8), TI16 => visitor.visit_i16(self.v as i16), TI32 => visitor.visit_i32(self.v as i32), TI64 => visitor.visit_i64(self.v as i64),
            TU8 => visitor.visit_u8(self.v as u8), TU16 => visitor.visit_u16(self.v as u16), TU32 => visitor.visit_u32(self.v as u32), TU64 => visitor.visit_u64(self.v), _ => Err(E) }
    }
    serde::forward_to_deserialize_any! { bool i8 i16 i32 i64 u8 u16 u32 u64 f32 f64 char str string bytes byte_buf option unit unit_struct newtype_struct seq tuple tuple_struct map struct enum identifier ignored_any }
}
'''
TAG = {"f32": "TF32", "f64": "TF64", "bool": "TBOOL", "i8": "TI8", "i16": "TI16", "i32": "TI32", "i64": "TI64", "u8": "TU8", "u16": "TU16", "u32": "TU32", "u64": "TU64", "usize": "TU64"}


def bits_of(sc, v):
    if sc == "f32":
        return f"({v}.to_bits() as u64)"
    if sc == "f64":
        return f"{v}.to_bits()"
    if sc == "bool":
        return f"({v} as u64)"
    if sc.startswith("i"):
        return f"({v} as u{sc[1:]} as u64)"
    return f"({v} as u64)"


def harnesses(tier, cfg):
    sse = KCFGS[cfg]["sse"]
    hs = []
    items = []      # (TypeName, scalar, N, draw code, [lane exprs], reader(valuevar) -> [lane exprs])
    for t in VEC.values():
        code, lanes = draw_vec(t, "a")
        items.append((t.name, t.scalar, t.dim, code, lanes, lambda v, t=t: [f"{v}.{LET[i]}" for i in range(t.dim)]))
    for Q, sc in (("Quat", "f32"), ("DQuat", "f64")):
        lanes = [f"a{i}" for i in range(4)]
        items.append((Q, sc, 4, " ".join(draw_scalar(sc, l) for l in lanes) + f" let a = {Q}::from_xyzw({', '.join(lanes)});", lanes, lambda v: [f"{v}.{LET[i]}" for i in range(4)]))
    for m in MATS.values():
        code, e = draw_mat(m, "a")
        items.append((m.name, m.scalar, m.n, code, [e[c][r] for c in range(m.cols) for r in range(m.rows)], lambda v, m=m: [f"{v}.to_cols_array()[{i}]" for i in range(m.n)]))
    masks = [("BVec2", 2), ("BVec3", 3), ("BVec4", 4)] + ([("BVec3A", 3), ("BVec4A", 4)] if sse else [])
    for M, n in masks:
        lanes = [f"a{i}" for i in range(n)]
        items.append((M, "bool", n, " ".join(f"let {l} = s.bool();" for l in lanes) + f" let a = {M}::new({', '.join(lanes)});", lanes, lambda v, n=n: [f"{v}.test({i})" for i in range(n)]))
    for T, sc, N, code, lanes, reader in items:
        tag = TAG[sc]
        L = [code, "let mut rec = Rec::new(); let res = a.serialize(TopSer(&mut rec));",
             f'va!("{T} serialises as a tuple struct of {N} fields", res.is_ok() && rec.declared == {N} && rec.n == {N} && rec.ended);']
        L += [f'va!("{T} serde element {i}", rec.tag[{i}] == {tag} && rec.val[{i}] == {bits_of(sc, lanes[i])});' for i in range(N)]
        hs.append(Harness(f"c19_{T.lower()}_serialize", "\n".join(L), backend="sat", desc=f"{T}: Serialize emits exactly {N} {sc} scalars in lane / column-major order, all bit patterns", site=f"{T}::serialize", unwind=24))
        if N + 2 > 18:
            toks = N + 1
        else:
            toks = N + 2
        L = [f"let toks: [u64; {toks}] = [{', '.join('s.u64()' for _ in range(toks))}]; let len = s.usize(); vassume!(len <= {toks});",
             f"let r = {T}::deserialize(TopDe {{ tag: {tag}, val: &toks, len }});",
             f'va!("{T} deserialises exactly sequences of length {N}", r.is_ok() == (len == {N}));', "if let Ok(v) = r {"]
        rd = reader("v")
        for i in range(N):
            want = {"f32": f"f32::from_bits(toks[{i}] as u32)", "f64": f"f64::from_bits(toks[{i}])", "bool": f"(toks[{i}] & 1 == 1)"}.get(sc, f"(toks[{i}] as {sc})")
            L.append(f'va!("{T} serde round trip element {i}", {rd[i]}.bits({want}));')
        L.append("}")
        hs.append(Harness(f"c19_{T.lower()}_deserialize", "\n".join(L), backend="sat", desc=f"{T}: Deserialize accepts exactly {N} scalars (rejects every other length 0..{toks}) and returns bit-identical lanes", site=f"{T}::deserialize", unwind=24))
    # ---- bytemuck
    src = repo_read("src/features/impl_bytemuck.rs")
    pods = []
    lines = src.splitlines()
    for i, l in enumerate(lines):
        m = re.match(r"\s*unsafe impl Pod for (\w+) \{\}", l)
        if not m:
            continue
        prev = lines[i - 1] if i else ""
        scalar_cfg = "scalar-math" in KCFGS[cfg]["features"]
        if 'cfg(not(feature = "scalar-math"))' in prev and scalar_cfg:
            continue
        if 'cfg(feature = "scalar-math")' in prev and not scalar_cfg:
            continue
        pods.append(m.group(1))
    allt = {T: (sc, N, code, lanes, reader) for T, sc, N, code, lanes, reader in items}
    for T in pods:
        if T not in allt:
            continue
        sc, N, code, lanes, reader = allt[T]
        L = [code, f'va!("{T}: Pod type has no padding", core::mem::size_of::<{T}>() == {N} * core::mem::size_of::<{sc}>());',
             f"let arr: [{sc}; {N}] = bytemuck::cast(a); let back: {T} = bytemuck::cast(arr); let z: {T} = bytemuck::Zeroable::zeroed();"]
        rb, rz = reader("back"), reader("z")
        zero = "0.0" if sc in ("f32", "f64") else "0"
        for i in range(N):
            L.append(f'va!("{T} bytemuck element {i}", arr[{i}].bits({lanes[i]}) && {rb[i]}.bits({lanes[i]}) && {rz[i]}.bits({zero}));')
        hs.append(Harness(f"c19_{T.lower()}_bytemuck", "\n".join(L), backend="sat", desc=f"{T} (Pod): no padding; byte image == elements in lane / column-major order; cast there and back is the identity; zeroed() is zero",
                          site=f"{T}::bytemuck", unwind=24))
    # ---- mint
    mint = [("Vec2", "Vector2", "f32", 2), ("Vec3", "Vector3", "f32", 3), ("Vec3A", "Vector3", "f32", 3), ("Vec4", "Vector4", "f32", 4), ("Vec2", "Point2", "f32", 2), ("Vec3", "Point3", "f32", 3),
            ("Vec3A", "Point3", "f32", 3), ("DVec3", "Vector3", "f64", 3), ("IVec4", "Vector4", "i32", 4), ("UVec2", "Vector2", "u32", 2)]
    for T, MT_, sc, n in mint:
        code, lanes = draw_vec(VEC[T], "a")
        L = [code, f"let m: mint::{MT_}<{sc}> = a.into(); let b: {T} = m.into();"]
        L += [f'va!("{T} <-> mint::{MT_} lane {i}", m.{LET[i]}.bits({lanes[i]}) && b.{LET[i]}.bits({lanes[i]}));' for i in range(n)]
        hs.append(Harness(f"c19_{T.lower()}_mint_{MT_.lower()}", "\n".join(L), backend="sat", desc=f"{T} <-> mint::{MT_}: identity, lane order kept", site=f"{T}::mint"))
    for Q, sc in (("Quat", "f32"), ("DQuat", "f64")):
        L = [" ".join(draw_scalar(sc, f"a{i}") for i in range(4)) + f" let a = {Q}::from_xyzw(a0, a1, a2, a3); let m: mint::Quaternion<{sc}> = a.into(); let b: {Q} = m.into();",
             f'va!("{Q} <-> mint::Quaternion", m.v.x.bits(a0) && m.v.y.bits(a1) && m.v.z.bits(a2) && m.s.bits(a3) && b.x.bits(a0) && b.y.bits(a1) && b.z.bits(a2) && b.w.bits(a3));']
        hs.append(Harness(f"c19_{Q.lower()}_mint", "\n".join(L), backend="sat", desc=f"{Q} <-> mint::Quaternion: vector part / scalar part", site=f"{Q}::mint"))
    for M, n in (("Mat2", 2), ("Mat3", 3), ("Mat3A", 3), ("Mat4", 4), ("DMat3", 3)):
        m = MATS[M]
        sc = m.scalar
        code, e = draw_mat(m, "a")
        L = [code, f"let cm: mint::ColumnMatrix{n}<{sc}> = a.into(); let rm: mint::RowMatrix{n}<{sc}> = a.into(); let b: {M} = cm.into(); let c: {M} = rm.into();"]
        for c_ in range(n):
            for r in range(n):
                L.append(f'va!("{M} mint ({r},{c_})", cm.{LET[c_]}.{LET[r]}.bits({e[c_][r]}) && rm.{LET[r]}.{LET[c_]}.bits({e[c_][r]}) && b.col({c_}).{LET[r]}.bits({e[c_][r]}) && c.col({c_}).{LET[r]}.bits({e[c_][r]}));')
        hs.append(Harness(f"c19_{m.lname}_mint", "\n".join(L), backend="sat", desc=f"{M} <-> mint ColumnMatrix{n} (same columns) and RowMatrix{n} (entry (r,c) preserved): identity both ways", site=f"{M}::mint"))
    return hs
