"""Catalogue of glam's generated types + helpers that emit Rust code drawing symbolic values."""
import os, re

REPO = os.environ.get("VERIF_REPO", "/repo")

SCALARS = {
    "f32": dict(prefix="Vec", float=True, bits=32, signed=True),
    "f64": dict(prefix="DVec", float=True, bits=64, signed=True),
    "i8": dict(prefix="I8Vec", float=False, bits=8, signed=True),
    "u8": dict(prefix="U8Vec", float=False, bits=8, signed=False),
    "i16": dict(prefix="I16Vec", float=False, bits=16, signed=True),
    "u16": dict(prefix="U16Vec", float=False, bits=16, signed=False),
    "i32": dict(prefix="IVec", float=False, bits=32, signed=True),
    "u32": dict(prefix="UVec", float=False, bits=32, signed=False),
    "i64": dict(prefix="I64Vec", float=False, bits=64, signed=True),
    "u64": dict(prefix="U64Vec", float=False, bits=64, signed=False),
    "usize": dict(prefix="USizeVec", float=False, bits=64, signed=False),
}
LET = "xyzw"


class VT:
    def __init__(self, name, scalar, dim, simd=False, hidden=False):
        self.name, self.scalar, self.dim, self.simd, self.hidden = name, scalar, dim, simd, hidden
        self.float = SCALARS[scalar]["float"]
        self.bits = SCALARS[scalar]["bits"]
        self.signed = SCALARS[scalar]["signed"]

    def __repr__(self):
        return self.name

    @property
    def lname(self):
        return self.name.lower()

    @property
    def mask(self):
        if self.name == "Vec3A":
            return "BVec3A"
        if self.name == "Vec4":
            return "BVec4A"
        return f"BVec{self.dim}"


def vec_types():
    ts = []
    for sc, info in SCALARS.items():
        for d in (2, 3, 4):
            ts.append(VT(f"{info['prefix']}{d}", sc, d, simd=(sc == "f32" and d == 4)))
            if sc == "f32" and d == 3:
                ts.append(VT("Vec3A", "f32", 3, simd=True, hidden=True))
    return ts


VEC = {t.name: t for t in vec_types()}
FLOAT_VECS = [t for t in VEC.values() if t.float]
INT_VECS = [t for t in VEC.values() if not t.float]


def vt(prefix_scalar, dim):
    return VEC[f"{SCALARS[prefix_scalar]['prefix']}{dim}"]


def draw_scalar(sc, var):
    return f"let {var}: {sc} = s.{sc}();"


def draw_vec(t, var, hidden=True):
    """emit code that builds `var: t` from fresh symbolic lanes `var0..`; Vec3A gets an arbitrary hidden lane.
    returns (code, [lane var names])"""
    lanes = [f"{var}{i}" for i in range(t.dim)]
    code = " ".join(draw_scalar(t.scalar, l) for l in lanes)
    if t.name == "Vec3A" and hidden:
        code += f" let {var}h: f32 = s.f32();"
        code += f" let {var} = Vec3A::from_vec4(Vec4::new({', '.join(lanes)}, {var}h));"
    else:
        code += f" let {var} = {t.name}::new({', '.join(lanes)});"
    return code, lanes


def eq_fn(t, bits=True):
    return "bits" if bits else "same"


def repo_read(rel):
    return open(os.path.join(REPO, rel)).read()


def swizzle_trait_methods():
    """parse src/swizzles/vec_traits.rs -> {2: (getters, setters), 3: ..., 4: ...}"""
    txt = repo_read("src/swizzles/vec_traits.rs")
    res = {}
    parts = re.split(r"pub trait (Vec\dSwizzles)", txt)
    for i in range(1, len(parts), 2):
        dim = int(parts[i][3])
        body = parts[i + 1]
        getters = re.findall(r"fn ([xyzw]{2,4})\(self\)", body)
        setters = re.findall(r"fn (with_[xyzw]{2,3})\(self, rhs", body)
        res[dim] = (getters, setters)
    return res


def swizzle_impl_types():
    """types that implement the swizzle traits in the current tree (scan impl headers)"""
    found = {}
    base = os.path.join(REPO, "src", "swizzles")
    for root, _, files in os.walk(base):
        for f in files:
            if not f.endswith(".rs"):
                continue
            for m in re.finditer(r"impl Vec(\d)Swizzles for (\w+)", open(os.path.join(root, f)).read()):
                found[m.group(2)] = int(m.group(1))
    return found


# ---------------------------------------------------------------------------------------------
# matrix / affine catalogue
# ---------------------------------------------------------------------------------------------
class MT:
    def __init__(self, name, scalar, cols, rows, colvec, affine=False, linear=None):
        self.name, self.scalar, self.cols, self.rows, self.colvec = name, scalar, cols, rows, VEC[colvec]
        self.affine, self.linear = affine, linear
        self.lname = name.lower()
        self.n = cols * rows

    def __repr__(self):
        return self.name

    def file(self, sse):
        be = "sse2" if sse else "scalar"
        if self.name in ("Mat2", "Mat3A", "Mat4"):
            return f"src/f32/{be}/{self.lname}.rs"
        if self.name in ("Mat3", "Affine2", "Affine3A"):
            return f"src/f32/{self.lname}.rs"
        return f"src/f64/{self.lname}.rs"


MATS = {m.name: m for m in [
    MT("Mat2", "f32", 2, 2, "Vec2"), MT("Mat3", "f32", 3, 3, "Vec3"), MT("Mat3A", "f32", 3, 3, "Vec3A"), MT("Mat4", "f32", 4, 4, "Vec4"),
    MT("DMat2", "f64", 2, 2, "DVec2"), MT("DMat3", "f64", 3, 3, "DVec3"), MT("DMat4", "f64", 4, 4, "DVec4"),
    MT("Affine2", "f32", 3, 2, "Vec2", True, "Mat2"), MT("Affine3A", "f32", 4, 3, "Vec3A", True, "Mat3A"),
    MT("DAffine2", "f64", 3, 2, "DVec2", True, "DMat2"), MT("DAffine3", "f64", 4, 3, "DVec3", True, "DMat3")]}
AXIS = ["x_axis", "y_axis", "z_axis", "w_axis"]


def draw_mat(m, var):
    """arbitrary matrix/affine built from arbitrary columns (Vec3A columns with arbitrary hidden lanes).
    returns (code, entries[c][r] variable names)"""
    code, ent, cols = [], [], []
    for c in range(m.cols):
        cc, lanes = draw_vec(m.colvec, f"{var}c{c}")
        code.append(cc)
        cols.append(f"{var}c{c}")
        ent.append(lanes)
    code.append(f"let {var} = {m.name}::from_cols({', '.join(cols)});")
    return " ".join(code), ent
