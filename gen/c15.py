"""C15: comparison masks, select and the mask algebra behave as lane-wise booleans."""
from kb import Harness
from types_ import VEC, LET, FLOAT_VECS, INT_VECS, draw_vec, draw_scalar

CFGS = {"quick": ["sse2", "scalar"], "thorough": ["sse2", "scalar"]}
BOUNDS = ("all 2^N mask values (symbolic lanes) and, for the SIMD masks, both hidden-lane contents reachable through the public API (0 and all-ones); index arguments fully "
          "symbolic usize; comparison operands are unconstrained bit patterns in every lane; Debug/Display not executed; quick tier: float vectors + i8/u16/i32/u64 families, thorough: all")
ASSUMPTIONS = ["recording Hasher (write_* overridden) stands for every Hasher", "BVec3A/BVec4A hidden lane is populated through `!m ^ TRUE` (the only public routes are comparisons and `!`)"]

MASKS = [("BVec2", 2, False), ("BVec3", 3, False), ("BVec4", 4, False), ("BVec3A", 3, True), ("BVec4A", 4, True)]
QUICK_INT = ["i8", "u16", "i32", "u64"]

PRELUDE = r'''
pub struct RecH { pub buf: [u64; 16], pub n: usize }
impl RecH { pub fn new() -> Self { RecH { buf: [0; 16], n: 0 } } fn push(&mut self, tag: u64, v: u64) { if self.n < 15 { self.buf[self.n] = tag; self.buf[self.n + 1] = v; self.n += 2; } } }
impl core::hash::Hasher for RecH {
    fn finish(&self) -> u64 { 0 }
    fn write(&mut self, bytes: &[u8]) { self.push(99, bytes.len() as u64); }
    fn write_u8(&mut self, i: u8) { self.push(1, i as u64) }
    fn write_u16(&mut self, i: u16) { self.push(2, i as u64) }
    fn write_u32(&mut self, i: u32) { self.push(4, i as u64) }
    fn write_u64(&mut self, i: u64) { self.push(8, i) }
    fn write_usize(&mut self, i: usize) { self.push(9, i as u64) }
}
pub fn rec<T: core::hash::Hash>(t: &T) -> RecH { let mut h = RecH::new(); t.hash(&mut h); h }
pub fn rec_eq(a: &RecH, b: &RecH) -> bool { a.n == b.n && a.buf[0] == b.buf[0] && a.buf[1] == b.buf[1] && a.buf[2] == b.buf[2] && a.buf[3] == b.buf[3] && a.buf[4] == b.buf[4] && a.buf[5] == b.buf[5] && a.buf[6] == b.buf[6] && a.buf[7] == b.buf[7] }
'''


def draw_mask(M, N, simd, var):
    """mask with symbolic lanes var0..; SIMD masks get a symbolic hidden/garbage state via `(!m) ^ TRUE`"""
    lanes = [f"{var}{i}" for i in range(N)]
    code = " ".join(f"let {l} = s.bool();" for l in lanes)
    code += f" let {var} = {M}::new({', '.join(lanes)});"
    if M == "BVec3A":
        code += f" let {var}h = s.bool(); let {var} = if {var}h {{ (!{var}) ^ {M}::new({', '.join(['true'] * N)}) }} else {{ {var} }};"
    return code, lanes


def harnesses(tier, cfg):
    hs = []

    def H(name, lines, backend="sat", expect="pass", desc="", site=None, unwind=None):
        hs.append(Harness(f"c15_{name}", "\n".join(lines), backend=backend, expect=expect, desc=desc, site=site or name, unwind=unwind, funcs=[site or name]))

    for M, N, simd in MASKS:
        lm = M.lower()
        ca, a = draw_mask(M, N, simd, "a")
        cb, b = draw_mask(M, N, simd, "b")
        bm = lambda ls: " | ".join(f"(({l} as u32) << {i})" for i, l in enumerate(ls))
        # readers
        lines = [ca] + [f'va!("{M}::test[{i}]", a.test({i}) == a{i});' for i in range(N)]
        lines += [f'va!("{M}::bitmask", a.bitmask() == ({bm(a)}));', f'va!("{M}::any", a.any() == ({" || ".join(a)}));', f'va!("{M}::all", a.all() == ({" && ".join(a)}));']
        lines += [f"let ab: [bool; {N}] = a.into(); let au: [u32; {N}] = a.into();"]
        lines += [f'va!("{M} -> [bool][{i}]", ab[{i}] == a{i});' for i in range(N)]
        lines += [f'va!("{M} -> [u32][{i}]", au[{i}] == if a{i} {{ 0xffff_ffff }} else {{ 0 }});' for i in range(N)]
        H(f"{lm}_readers", lines, desc=f"{M}: test/bitmask/any/all/Into<[bool;N]>/Into<[u32;N]> are the lane-wise functions of the {N} boolean lanes", site=f"{M}::readers")
        # constructors
        lines = [f"let v = s.bool(); let m = {M}::splat(v);"] + [f'va!("{M}::splat[{i}]", m.test({i}) == v);' for i in range(N)]
        lines += [" ".join(f"let c{i} = s.bool();" for i in range(N)), f"let m = {M}::from_array([{', '.join(f'c{i}' for i in range(N))}]); let m2: {M} = [{', '.join(f'c{i}' for i in range(N))}].into();"]
        lines += [f'va!("{M}::from_array[{i}]", m.test({i}) == c{i} && m2.test({i}) == c{i});' for i in range(N)]
        lines += [f"let d = {M}::default(); let f = {M}::FALSE; let t = {M}::TRUE;", f'va!("{M}::default/FALSE/TRUE", d.bitmask() == 0 && f.bitmask() == 0 && t.bitmask() == {(1 << N) - 1});']
        H(f"{lm}_ctors", lines, desc=f"{M}: splat/from_array/From<[bool;N]>/default/FALSE/TRUE", site=f"{M}::ctors")
        # algebra
        for opn, sym in (("bitand", "&"), ("bitor", "|"), ("bitxor", "^")):
            lines = [ca, cb, f"let r = a {sym} b; let mut r2 = a; r2 {sym}= b;"]
            lines += [f'va!("{M} {sym} [{i}]", r.test({i}) == (a{i} {sym} b{i}) && r2.test({i}) == (a{i} {sym} b{i}));' for i in range(N)]
            lines += [f'va!("{M} {sym} bitmask", r.bitmask() == (({bm(a)}) {sym} ({bm(b)})) && r.bitmask() == r2.bitmask());']
            H(f"{lm}_{opn}", lines, desc=f"{M} {sym} and {sym}= are lane-wise", site=f"{M}::{opn}")
        lines = [ca, "let r = !a;"] + [f'va!("!{M}[{i}]", r.test({i}) == !a{i});' for i in range(N)] + [f'va!("!{M} bitmask", r.bitmask() == (!({bm(a)}) & {(1 << N) - 1}));',
                 f'va!("!{M} any/all", r.any() == !({" && ".join(a)}) && r.all() == !({" || ".join(a)}));']
        H(f"{lm}_not", lines, desc=f"!{M} is lane-wise and leaves no trace in bitmask/any/all", site=f"{M}::not")
        # eq / hash
        lines = [ca, cb, f'va!("{M} ==", (a == b) == ({" && ".join(f"{x} == {y}" for x, y in zip(a, b))}));', f'va!("{M} !=", (a != b) == ({" || ".join(f"{x} != {y}" for x, y in zip(a, b))}));',
                 "let ha = rec(&a); let hb = rec(&b);", f'if {" && ".join(f"{x} == {y}" for x, y in zip(a, b))} {{ va!("{M} hash", rec_eq(&ha, &hb)); }}',
                 f'va!("{M} hash writes something", ha.n > 0);']
        H(f"{lm}_eq_hash", lines, desc=f"{M}: == and Hash are functions of the {N} lanes only (equal lanes => equal, identical Hasher calls)", site=f"{M}::eq_hash", unwind=20)
        # test / set with symbolic index
        lines = [ca, "let i = s.usize(); let v = s.bool();", f"if i < {N} {{", "let t = a.test(i);", f'va!("{M}::test(i)", t == [{", ".join(a)}][i]);',
                 "let mut m = a; m.set(i, v);"] + [f'va!("{M}::set lane {k}", m.test({k}) == if i == {k} {{ v }} else {{ a{k} }});' for k in range(N)] + ["}"]
        H(f"{lm}_test_set", lines, desc=f"{M}::test/set with a symbolic in-range index: reads lane i, writes exactly lane i", site=f"{M}::test_set")
        H(f"{lm}_test_oob", [ca, f"let i = s.usize(); vassume!(i >= {N});", 'vcover!("PRE");', "let t = a.test(i);"], expect="panic", desc=f"{M}::test panics for every index >= {N}", site=f"{M}::test_set")
        H(f"{lm}_set_oob", [ca, f"let i = s.usize(); let v = s.bool(); vassume!(i >= {N});", 'vcover!("PRE");', "let mut m = a; m.set(i, v);"], expect="panic", desc=f"{M}::set panics for every index >= {N}", site=f"{M}::test_set")
    # SIMD masks observationally identical to the plain ones
    for MA, MP, N in (("BVec3A", "BVec3", 3), ("BVec4A", "BVec4", 4)):
        ca, a = draw_mask(MA, N, True, "a")
        cb, b = draw_mask(MA, N, True, "b")
        lines = [ca, cb, f"let pa = {MP}::new({', '.join(a)}); let pb = {MP}::new({', '.join(b)});"]
        for sym in "&|^":
            lines.append(f'va!("{MA}~{MP} {sym}", (a {sym} b).bitmask() == (pa {sym} pb).bitmask());')
        lines += [f'va!("{MA}~{MP} not", (!a).bitmask() == (!pa).bitmask());', f'va!("{MA}~{MP} any/all/bitmask", a.any() == pa.any() && a.all() == pa.all() && a.bitmask() == pa.bitmask());',
                  f'va!("{MA}~{MP} eq", (a == b) == (pa == pb));',
                  f"let x: [bool; {N}] = a.into(); let y: [bool; {N}] = pa.into(); let xu: [u32; {N}] = a.into(); let yu: [u32; {N}] = pa.into();"]
        lines += [f'va!("{MA}~{MP} into[{i}]", x[{i}] == y[{i}] && xu[{i}] == yu[{i}]);' for i in range(N)]
        H(f"{MA.lower()}_vs_{MP.lower()}", lines, desc=f"{MA} is observationally identical to {MP} on every operation (same lanes in, same observations out)", site=f"{MA}~{MP}")
    # comparisons and select on numeric vector types
    for t in list(FLOAT_VECS) + list(INT_VECS):
        if tier == "quick" and not t.float and t.scalar not in QUICK_INT:
            continue
        T, N = t.name, t.dim
        ca, a = draw_vec(t, "a")
        cb, b = draw_vec(t, "b")
        if True:   # (float comparisons are also part of C01)
            for m, sym in (("cmpeq", "=="), ("cmpne", "!="), ("cmplt", "<"), ("cmple", "<="), ("cmpgt", ">"), ("cmpge", ">=")):
                lines = [ca, cb, f"let r = a.{m}(b);"] + [f'va!("{T}::{m}[{i}]", r.test({i}) == (a{i} {sym} b{i}));' for i in range(N)]
                lines.append(f'va!("{T}::{m}.bitmask", r.bitmask() == ({" | ".join(f"(((a{i} {sym} b{i}) as u32) << {i})" for i in range(N))}));')
                H(f"{t.lname}_{m}", lines, desc=f"{T}::{m}: mask lane i == primitive comparison of lane i", site=f"{T}::{m}")
        M = t.mask
        if T == "Vec4" and cfg in ("scalar", "scalara", "feats"):
            M = "BVec4"   # with scalar-math Vec4's mask type is BVec4
        cm, ml = draw_mask(M, N, t.simd, "m")
        eq = "bits"
        lines = [cm, ca, cb, f"let r = {T}::select(m, a, b);"] + [f'va!("{T}::select[{i}]", r.{LET[i]}.bits(if m{i} {{ a{i} }} else {{ b{i} }}));' for i in range(N)]
        H(f"{t.lname}_select", lines, desc=f"{T}::select(mask, a, b): lane i is a's lane where the mask lane is true, b's elsewhere, bit for bit (all masks incl. hidden-lane states)", site=f"{T}::select")
        if t.float:
            # select driven by a mask that comes from a comparison (NaN lanes select b)
            lines = [ca, cb, draw_vec(t, "p")[0], draw_vec(t, "q")[0], f"let r = {T}::select(p.cmplt(q), a, b);"]
            lines += [f'va!("{T}::select(cmplt)[{i}]", r.{LET[i]}.bits(if p{i} < q{i} {{ a{i} }} else {{ b{i} }}));' for i in range(N)]
            H(f"{t.lname}_select_cmp", lines, desc=f"{T}::select(p.cmplt(q), a, b) lane-wise incl. NaN lanes", site=f"{T}::select")
    return hs
