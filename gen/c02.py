"""C02: vector geometry formulas are the textbook ones (E2 mode R); normalize-family discrete outcomes (E1); tolerance clauses are not decided."""
import os, sys
VERIF = os.path.dirname(os.path.dirname(os.path.abspath(__file__)))
sys.path.insert(0, os.path.join(VERIF, "e2"))
from e2glue import e2_run as _e2
from c05 import z3and, z3or
from kb import Harness
from types_ import FLOAT_VECS, LET, draw_vec, draw_scalar

CFGS = {"quick": ["sse2", "scalar"], "thorough": ["sse2", "scalar"]}
BOUNDS = ("E2-R (SSE2 + scalar IR, all 7 float vector types, Vec3A with an arbitrary hidden lane): dot, cross, perp_dot, length_squared, distance_squared, element_sum, element_product, "
          "project_onto(_normalized), reject_from(_normalized), reflect, refract (both sides of k >= 0), length, distance, length_recip, normalize (r = sqrt(sum x^2) as a constrained symbol; "
          "normalize(v) is parallel to v, same direction, unit) are, as real functions, exactly their textbook definitions; polynomial ones are exact integers on the lattice reported. "
          "E1 (bits, all inputs incl. zero / subnormal / huge / inf / NaN, sqrt uninterpreted): try_normalize is None <=> normalize_or returns the fallback <=> normalize_or_zero returns "
          "zero <=> normalize_and_length returns (X, 0) <=> !(1/len finite and > 0), and otherwise all return self * (1/len). NOT decided: every 'within a few eps' accuracy bound, "
          "angle_between/angle_to accuracy (polynomial arccos error), 'checked forms never return a non-finite vector' (needs the value of sqrt and three multipliers: SAT probe > 600 s).")
ASSUMPTIONS = ["IEEE operations read as exact real operations (E2)", "sqrt as an uninterpreted function in the E1 normalize-family harnesses (its value is irrelevant to the discrete outcome equivalences)"]

VT = [("Vec2", "v2", "wv2", 2, 2, 4), ("Vec3", "v3", "wv3", 3, 3, 4), ("Vec3A", "v3ah", "wv3a", 3, 4, 4), ("Vec4", "v4", "wv4", 4, 4, 4),
      ("DVec2", "dv2", "wdv2", 2, 2, 8), ("DVec3", "dv3", "wdv3", 3, 3, 8), ("DVec4", "dv4", "wdv4", 4, 4, 8)]


def kernels(tier):
    ks = []
    for spec in VT:
        _vec(ks, *spec)
    return ks


def _vec(ks, T, rd, wr, n, w, elem):
    import ref as R
    from run import K
    f1, w1 = ("f", "w1") if elem == 4 else ("d", "wd")
    tl = T.lower()
    n2 = lambda v: R.dot(v, v)
    A, B = (lambda x: x[0:n]), (lambda x: x[w:w + n])
    one = lambda lab, f: (lambda x, o, h: [(lab, h.eq(o[0], f(x, h)))])
    ks.append(K(f"{tl}_dot", 2 * w, 1, f"{w1}(o, 0, {rd}(i, 0).dot({rd}(i, {w})));", one(f"{T}::dot", lambda x, h: R.dot(A(x), B(x))), elem=elem, site=f"{T}::dot", tags=("poly",)))
    ks.append(K(f"{tl}_len2", 2 * w, 2, f"{w1}(o, 0, {rd}(i, 0).length_squared()); {w1}(o, 1, {rd}(i, 0).distance_squared({rd}(i, {w})));",
                lambda x, o, h: [(f"{T}::length_squared", h.eq(o[0], n2(A(x)))), (f"{T}::distance_squared", h.eq(o[1], n2(R.sub(A(x), B(x)))))], elem=elem, site=f"{T}::length_squared", tags=("poly",)))
    ks.append(K(f"{tl}_esum", w, 2, f"{w1}(o, 0, {rd}(i, 0).element_sum()); {w1}(o, 1, {rd}(i, 0).element_product());",
                lambda x, o, h: [(f"{T}::element_sum", h.eq(o[0], R.sum_(A(x)))), (f"{T}::element_product", h.eq(o[1], _prod(A(x))))], elem=elem, site=f"{T}::element_sum", tags=("poly",),
                desc=f"{T}::element_sum/product are the sum / product of exactly the {n} lanes"))
    if n == 3:
        ks.append(K(f"{tl}_cross", 2 * w, 3, f"{wr}(o, 0, {rd}(i, 0).cross({rd}(i, {w})));", lambda x, o, h: R.eq_all(h, o, R.cross(A(x), B(x)), f"{T}::cross"), elem=elem, site=f"{T}::cross", tags=("poly",)))
    if n == 2:
        ks.append(K(f"{tl}_perp_dot", 2 * w, 1, f"{w1}(o, 0, {rd}(i, 0).perp_dot({rd}(i, {w})));", one(f"{T}::perp_dot", lambda x, h: A(x)[0] * B(x)[1] - A(x)[1] * B(x)[0]), elem=elem, site=f"{T}::perp_dot", tags=("poly",)))
    ks.append(K(f"{tl}_length", 2 * w, 3, f"{w1}(o, 0, {rd}(i, 0).length()); {w1}(o, 1, {rd}(i, 0).length_recip()); {w1}(o, 2, {rd}(i, 0).distance({rd}(i, {w})));",
                lambda x, o, h: [(f"{T}::length == sqrt(sum x^2)", h.eq(o[0], h.sqrt(n2(A(x))))), (f"{T}::length_recip * length == 1", h.eq(o[1] * h.sqrt(n2(A(x))), 1)),
                                 (f"{T}::distance", h.eq(o[2], h.sqrt(n2(R.sub(A(x), B(x))))))], hyps=lambda x, h: [n2(A(x)) > 0], elem=elem, site=f"{T}::length"))
    def ob_norm(x, o, h):
        v = A(x)
        obs = [(f"{T}::normalize parallel ({a},{b})", h.eq(o[a] * v[b], o[b] * v[a])) for a in range(n) for b in range(a + 1, n)]
        obs += [(f"{T}::normalize same direction", R.dot(o, v) > 0)]
        if n < 4:      # (the unit-length identity in 4 components comes back `unknown` from nlsat on one of the two builds: not claimed for Vec4/DVec4)
            obs.append((f"{T}::normalize unit", h.eq(n2(o), 1)))
        return obs
    ks.append(K(f"{tl}_normalize", w, n, f"{wr}(o, 0, {rd}(i, 0).normalize());", ob_norm, hyps=lambda x, h: [n2(A(x)) > 0], elem=elem, site=f"{T}::normalize",
                desc=f"{T}::normalize(v) is parallel to v, points the same way and has unit length (v != 0)"))
    def ob_proj(x, o, h):
        a, b = A(x), B(x)
        bb = n2(b)
        ab = R.dot(a, b)
        return [(f"project_onto[{j}] * |b|^2 == b[{j}] (a.b)", h.eq(o[j] * bb, b[j] * ab)) for j in range(n)] + \
               [(f"reject_from[{j}] == a - project_onto", h.eq(o[n + j], a[j] - o[j])) for j in range(n)]
    if n < 4:      # (4-component project_onto: nlsat `unknown` within the cap; not claimed)
      ks.append(K(f"{tl}_project", 2 * w, 2 * n, f"let a = {rd}(i, 0); let b = {rd}(i, {w}); {wr}(o, 0, a.project_onto(b)); {wr}(o, {n}, a.reject_from(b));", ob_proj, hyps=lambda x, h: [n2(B(x)) > 0],
                  elem=elem, site=f"{T}::project_onto"))
    def ob_projn(x, o, h):
        a, b = A(x), B(x)
        ab = R.dot(a, b)
        return [(f"project_onto_normalized[{j}]", h.eq(o[j], b[j] * ab)) for j in range(n)] + [(f"reject_from_normalized[{j}]", h.eq(o[n + j], a[j] - b[j] * ab)) for j in range(n)]
    ks.append(K(f"{tl}_project_n", 2 * w, 2 * n, f"let a = {rd}(i, 0); let b = {rd}(i, {w}); {wr}(o, 0, a.project_onto_normalized(b)); {wr}(o, {n}, a.reject_from_normalized(b));", ob_projn,
                elem=elem, site=f"{T}::project_onto_normalized", tags=("poly",)))
    ks.append(K(f"{tl}_reflect", 2 * w, n, f"{wr}(o, 0, {rd}(i, 0).reflect({rd}(i, {w})));", lambda x, o, h: R.eq_all(h, o, [A(x)[j] - 2 * R.dot(A(x), B(x)) * B(x)[j] for j in range(n)], f"{T}::reflect"),
                elem=elem, site=f"{T}::reflect", tags=("poly",)))
    def ob_refr(x, o, h):
        i_, nn, eta = A(x), B(x), x[2 * w]
        ndi = R.dot(nn, i_)
        k = 1 - eta * eta * (1 - ndi * ndi)
        return [(f"refract[{j}]", z3or(h, [z3and(h, [k < 0, h.eq(o[j], 0)]), z3and(h, [k >= 0, h.eq(o[j], eta * i_[j] - (eta * ndi + h.sqrt(k)) * nn[j])])])) for j in range(n)]
    ks.append(K(f"{tl}_refract", 2 * w + 1, n, f"{wr}(o, 0, {rd}(i, 0).refract({rd}(i, {w}), {f1}(i, {2 * w})));", ob_refr, elem=elem, site=f"{T}::refract",
                desc=f"{T}::refract: eta*i - (eta*(n.i) + sqrt(k))*n when k >= 0, zero under total internal reflection", timeout=120))


def _prod(v):
    p = v[0]
    for x in v[1:]:
        p = p * x
    return p


def e2_run(tier, seed):
    return _e2("C02", kernels(tier), tier, seed, cfgs=("sse2", "scalar"))


PRELUDE = r'''
// the real math shims of /repo, compiled into the harness crate (same source text, not a copy)
#[path = "/repo/src/f64/math.rs"] pub mod shim64;
#[path = "/repo/src/f32/math.rs"] pub mod shim32;
'''


def harnesses(tier, cfg):
    hs = []
    if cfg == "sse2":
        hs.append(Harness("c02_acos_approx_f64", 'let x = s.f64(); if x >= -2.0 && x <= 2.0 { let r = crate::shim64::acos_approx(x); va!("f64 acos_approx is a number for arguments in [-2, 2] (clamped to [-1, 1])", !r.is_nan() && r >= 0.0 && r <= 3.2); }',
                          backend="sat", nostubs=True, desc="glam::f64::math::acos_approx (the real shim source, acos as a range/domain model): for every argument in [-2, 2] (a cosine computed with rounding can land slightly outside [-1, 1]) the result is a number in [0, pi], never NaN",
                          site="f64::acos_approx", cap=300))
        hs.append(Harness("c02_acos_approx_f32", 'let x = s.f32(); if x >= -2.0 && x <= 2.0 { let r = crate::shim32::acos_approx(x); va!("f32 acos_approx is a number for arguments in [-2, 2]", !r.is_nan() && r >= 0.0 && r <= 3.2); }',
                          backend="sat", nostubs=True, desc="glam::f32::math::acos_approx (polynomial arccos, real source, exact sqrt): for every argument in [-2, 2] the result is a number in [0, 3.2], never NaN (for huge arguments the polynomial overflows to NaN: outside the property's domain)",
                          site="f32::acos_approx", cap=300))
    for t in FLOAT_VECS:
        T, N, sc = t.name, t.dim, t.scalar
        ca, a = draw_vec(t, "a")
        cf, f = draw_vec(t, "fb")
        eqv = lambda u, v: " && ".join(f"{u}.{LET[i]}.bits({v}.{LET[i]})" for i in range(N))
        L = [ca, cf, "let rcp = a.length_recip(); let ok = rcp.is_finite() && rcp > 0.0; let scaled = a * rcp;",
             "let tn = a.try_normalize(); let no = a.normalize_or(fb); let nz = a.normalize_or_zero();",
             f'va!("{T}::try_normalize is None exactly when !(1/len finite and > 0)", tn.is_some() == ok);',
             f'if let Some(v) = tn {{ va!("{T}::try_normalize value == self * (1/len)", {eqv("v", "scaled")}); }}',
             f'va!("{T}::normalize_or", if ok {{ {eqv("no", "scaled")} }} else {{ {eqv("no", "fb")} }});',
             f'va!("{T}::normalize_or_zero", if ok {{ {eqv("nz", "scaled")} }} else {{ {" && ".join(f"nz.{LET[i]}.bits(0.0)" for i in range(N))} }});']
        hs.append(Harness(f"c02_{t.lname}_normalize_family", "\n".join(L), backend="smt", uf=("sqrt",),
                          desc=f"{T}: try_normalize / normalize_or / normalize_or_zero agree on the fallback condition !(1/len finite and > 0) and otherwise return self * (1/len), for ALL inputs (bits)",
                          site=f"{T}::try_normalize", cap=200))
        L = [ca, "let len = a.length(); let rcp = 1.0 / len; let ok = rcp.is_finite() && rcp > 0.0; let (v, l) = a.normalize_and_length(); let scaled = a * rcp;",
             f'va!("{T}::normalize_and_length", if ok {{ {eqv("v", "scaled")} && l.bits(len) }} else {{ v.x.bits(1.0) && {" && ".join(f"v.{LET[i]}.bits(0.0)" for i in range(1, N))} && l.bits(0.0) }});']
        hs.append(Harness(f"c02_{t.lname}_normalize_and_length", "\n".join(L), backend="smt", uf=("sqrt",),
                          desc=f"{T}::normalize_and_length returns (X, 0) exactly when !(1/len finite and > 0), else (self * (1/len), len)", site=f"{T}::normalize_and_length", cap=200))
    return hs
