"""C08: the unused fourth lane of Vec3A / Mat3A / Affine3A / BVec3A never influences a result (two-run non-interference, SSE2)."""
import re
from kb import Harness, CFGS as KCFGS
from types_ import VEC, MATS, FLOAT_VECS, LET, SCALARS, draw_vec, draw_scalar, repo_read
import c18

CFGS = {"quick": ["sse2"], "thorough": ["sse2"]}   # the lane does not exist under scalar-math
HID = {"Vec3A", "Mat3A", "Affine3A", "BVec3A"}
BOUNDS = ("relational (two-run) harnesses: every public method whose receiver or a parameter is Vec3A / Mat3A / Affine3A / BVec3A (found by scanning the tree), plus the operator and "
          "conversion impls of those types, is run twice on operands with identical visible lanes and two INDEPENDENT arbitrary hidden-lane contents (free 32-bit patterns per "
          "16-byte slot; both mask states for BVec3A); every visible component of the two results must be bit-identical. One step from arbitrary hidden content = inductive step "
          "for compositions of any length. sqrt and the transcendental shims are uninterpreted functions so that the two runs share terms. Debug/Display not executed.")
ASSUMPTIONS = ["uninterpreted sqrt/sin/cos/tan/atan2/exp/powf/acos_approx: equal arguments give equal results (congruence), which is what any deterministic implementation satisfies"]
UF_ALL = c18.UF_ALL + ("mul_add", "div_euclid", "rem_euclid")
# float `%` cannot be abstracted in E1 (primitive MIR operator) and two fmod circuits do not finish: the `%` forms are decided by E2 (the output
# terms of the IR do not mention the hidden-lane inputs). rotate_towards / to_euler two-run formulas (4 MB) exceed the caps of both back ends.
UNDECIDED = {"Vec3A::rotate_towards": "two-run formula exceeds the cap on cvc5, z3 and CaDiCaL", "Mat3A::to_euler": "two-run formula exceeds the cap"}

PRELUDE = r'''
pub trait VisEq { fn viseq(&self, o: &Self) -> bool; }
macro_rules! viseq_prim { ($($t:ty),*) => { $(impl VisEq for $t { #[inline(always)] fn viseq(&self, o: &Self) -> bool { *self == *o } })* } }
viseq_prim!(u8, i8, u16, i16, u32, i32, u64, i64, usize, bool, ());
impl VisEq for f32 { #[inline(always)] fn viseq(&self, o: &Self) -> bool { self.to_bits() == o.to_bits() } }
impl VisEq for f64 { #[inline(always)] fn viseq(&self, o: &Self) -> bool { self.to_bits() == o.to_bits() } }
macro_rules! viseq_v { ($t:ty, $($f:ident),+) => { impl VisEq for $t { #[inline(always)] fn viseq(&self, o: &Self) -> bool { true $(&& self.$f.viseq(&o.$f))+ } } } }
viseq_v!(Vec2, x, y); viseq_v!(Vec3, x, y, z); viseq_v!(Vec3A, x, y, z); viseq_v!(Vec4, x, y, z, w);
viseq_v!(DVec2, x, y); viseq_v!(DVec3, x, y, z); viseq_v!(DVec4, x, y, z, w);
viseq_v!(IVec2, x, y); viseq_v!(IVec3, x, y, z); viseq_v!(IVec4, x, y, z, w); viseq_v!(UVec2, x, y); viseq_v!(UVec3, x, y, z); viseq_v!(UVec4, x, y, z, w);
viseq_v!(I8Vec3, x, y, z); viseq_v!(U8Vec3, x, y, z); viseq_v!(I16Vec3, x, y, z); viseq_v!(U16Vec3, x, y, z); viseq_v!(I64Vec3, x, y, z); viseq_v!(U64Vec3, x, y, z); viseq_v!(USizeVec3, x, y, z);
viseq_v!(Quat, x, y, z, w); viseq_v!(DQuat, x, y, z, w);
viseq_v!(Mat2, x_axis, y_axis); viseq_v!(Mat3, x_axis, y_axis, z_axis); viseq_v!(Mat3A, x_axis, y_axis, z_axis); viseq_v!(Mat4, x_axis, y_axis, z_axis, w_axis);
viseq_v!(DMat2, x_axis, y_axis); viseq_v!(DMat3, x_axis, y_axis, z_axis); viseq_v!(DMat4, x_axis, y_axis, z_axis, w_axis);
viseq_v!(Affine2, matrix2, translation); viseq_v!(Affine3A, matrix3, translation); viseq_v!(DAffine2, matrix2, translation); viseq_v!(DAffine3, matrix3, translation);
macro_rules! viseq_m { ($($t:ty),*) => { $(impl VisEq for $t { #[inline(always)] fn viseq(&self, o: &Self) -> bool { self.bitmask() == o.bitmask() } })* } }
viseq_m!(BVec2, BVec3, BVec4, BVec3A, BVec4A);
impl<T: VisEq> VisEq for Option<T> { #[inline(always)] fn viseq(&self, o: &Self) -> bool { match (self, o) { (Some(a), Some(b)) => a.viseq(b), (None, None) => true, _ => false } } }
impl<A: VisEq, B: VisEq> VisEq for (A, B) { #[inline(always)] fn viseq(&self, o: &Self) -> bool { self.0.viseq(&o.0) && self.1.viseq(&o.1) } }
impl<A: VisEq, B: VisEq, C: VisEq> VisEq for (A, B, C) { #[inline(always)] fn viseq(&self, o: &Self) -> bool { self.0.viseq(&o.0) && self.1.viseq(&o.1) && self.2.viseq(&o.2) } }
impl<T: VisEq> VisEq for [T; 3] { #[inline(always)] fn viseq(&self, o: &Self) -> bool { self[0].viseq(&o[0]) && self[1].viseq(&o[1]) && self[2].viseq(&o[2]) } }
impl<T: VisEq> VisEq for [T; 4] { #[inline(always)] fn viseq(&self, o: &Self) -> bool { self[0].viseq(&o[0]) && self[1].viseq(&o[1]) && self[2].viseq(&o[2]) && self[3].viseq(&o[3]) } }
impl VisEq for [f32; 9] { #[inline(always)] fn viseq(&self, o: &Self) -> bool { let mut ok = true; let mut i = 0; while i < 9 { ok = ok && self[i].viseq(&o[i]); i += 1; } ok } }
impl VisEq for [f32; 12] { #[inline(always)] fn viseq(&self, o: &Self) -> bool { let mut ok = true; let mut i = 0; while i < 12 { ok = ok && self[i].viseq(&o[i]); i += 1; } ok } }
''' + "\n" + __import__("c15").PRELUDE


class Pair(c18.Drawer):
    """draws every value twice: visible lanes shared, hidden lanes independent. value() returns (expr_run1, expr_run2)"""
    def value2(self, ty):
        ty = ty.strip()
        if ty.startswith("crate::"):
            ty = ty[7:]
        if ty == "Self":
            ty = self.selfname
        if ty.startswith("&mut "):
            return None
        if ty.startswith("&"):
            v = self.value2(ty[1:])
            return None if v is None else (f"&{v[0]}", f"&{v[1]}")
        if ty == "Vec3A":
            v = self.fresh()
            self.code.append(f"let {v}x = s.f32(); let {v}y = s.f32(); let {v}z = s.f32(); let {v}h1 = s.f32(); let {v}h2 = s.f32();")
            self.code.append(f"let {v}a = Vec3A::from_vec4(Vec4::new({v}x, {v}y, {v}z, {v}h1)); let {v}b = Vec3A::from_vec4(Vec4::new({v}x, {v}y, {v}z, {v}h2));")
            return f"{v}a", f"{v}b"
        if ty == "Mat3A":
            cols = [self.value2("Vec3A") for _ in range(3)]
            v = self.fresh()
            self.code.append(f"let {v}a = Mat3A::from_cols({', '.join(c[0] for c in cols)}); let {v}b = Mat3A::from_cols({', '.join(c[1] for c in cols)});")
            return f"{v}a", f"{v}b"
        if ty == "Affine3A":
            cols = [self.value2("Vec3A") for _ in range(4)]
            v = self.fresh()
            self.code.append(f"let {v}a = Affine3A::from_cols({', '.join(c[0] for c in cols)}); let {v}b = Affine3A::from_cols({', '.join(c[1] for c in cols)});")
            return f"{v}a", f"{v}b"
        if ty == "BVec3A":
            v = self.fresh()
            self.code.append(f"let {v}m = BVec3A::new(s.bool(), s.bool(), s.bool()); let {v}h1 = s.bool(); let {v}h2 = s.bool();")
            self.code.append(f"let {v}a = if {v}h1 {{ (!{v}m) ^ BVec3A::new(true, true, true) }} else {{ {v}m }}; let {v}b = if {v}h2 {{ (!{v}m) ^ BVec3A::new(true, true, true) }} else {{ {v}m }};")
            return f"{v}a", f"{v}b"
        e = self.value(ty)
        return None if e is None else (e, e)


SUPPORTED_RET = re.compile(r"^(Self|f32|f64|bool|usize|u32|\(\)|Vec\w+|DVec\w+|[IU]\w*Vec\d|Quat|DQuat|Mat\w+|DMat\w+|Affine\w+|DAffine\w+|BVec\w+|Option<Self>|Option<\w+>|\((Self|\w+), (Self|\w+)\)|\((Self|\w+), (Self|\w+), (Self|\w+)\)|\[f32; (3|4|9|12)\]|\[\[f32; 3\]; (3|4)\]|\[bool; 3\]|\[u32; 3\])$")


def harnesses(tier, cfg):
    sse = KCFGS[cfg]["sse"]
    c18.Drawer.sse = sse
    hs, skipped = [], []
    types = [(t.name, c18.vec_file(t, sse)) for t in FLOAT_VECS] + [(q.name, q.file(sse)) for q in c18.QUATS.values()] + [(m.name, m.file(sse)) for m in MATS.values()]
    types.append(("BVec3A", "src/bool/sse2/bvec3a.rs" if sse else "src/bool/scalar/bvec3a.rs"))
    for T, f in types:
        src = repo_read(f)
        for name, gen, params, ret in c18.methods_of(T, src):
            ps = c18.split_params(params)
            mentions = T in HID or any(h in p for p in ps for h in HID)
            if not mentions or gen:
                continue
            ret = (ret or "()").strip()
            if not SUPPORTED_RET.match(ret):
                skipped.append(f"{T}::{name} -> {ret}")
                continue
            if name in ("from_slice", "write_to_slice", "from_cols_slice", "write_cols_to_slice", "col_mut"):
                continue
            if f"{T}::{name}" in UNDECIDED:
                skipped.append(f"{T}::{name}: " + UNDECIDED[f"{T}::{name}"])
                continue
            d = Pair(T)
            args1, args2, recv, ok = [], [], None, True
            for p in ps:
                if p in ("self", "mut self", "&self", "&mut self"):
                    recv = d.value2(T)
                    continue
                pn, _, pty = p.partition(":")
                v = d.value2(pty)
                if v is None:
                    ok = False
                    break
                args1.append(v[0])
                args2.append(v[1])
            if not ok or (recv is None and T not in HID and not any(a != b for a, b in zip(args1, args2))):
                if not ok:
                    skipped.append(f"{T}::{name}({params})")
                continue
            if name in ("col", "row") or name.endswith("_minor") or name in ("test", "set"):
                # index-taking: restrict to valid indices (panics are C18/C06/C15's business)
                lim = 3
                d.code.append(" ".join(f"vassume!({a} < {lim});" for a in args1 if re.fullmatch(r"p\d+", a) and f"let {a} = s.usize();" in " ".join(d.code)))
            mutself = "&mut self" in ps
            if mutself:
                d.code.append(f"let mut m1 = {recv[0]}; let mut m2 = {recv[1]}; let r1 = m1.{name}({', '.join(args1)}); let r2 = m2.{name}({', '.join(args2)});")
                d.code.append(f'va!("{T}::{name} hidden-lane independence (receiver after call)", m1.viseq(&m2));')
            else:
                c1 = f"{recv[0]}.{name}({', '.join(args1)})" if recv else f"{T}::{name}({', '.join(args1)})"
                c2 = f"{recv[1]}.{name}({', '.join(args2)})" if recv else f"{T}::{name}({', '.join(args2)})"
                d.code.append(f"let r1 = {c1}; let r2 = {c2};")
            d.code.append(f'va!("{T}::{name} hidden-lane independence", r1.viseq(&r2));')
            be = "sat" if name in ("fract", "fract_gl", "floor", "ceil", "round", "trunc") else "smt"   # round-to-integral: no SMT2 encoding in CBMC
            hs.append(Harness(f"c08_{T.lower()}_{name}", "\n".join(d.code), backend=be, uf=UF_ALL, unwind=14,
                              desc=f"{T}::{name}: two runs with identical visible lanes and independent arbitrary hidden lanes return bit-identical visible results",
                              site=f"{T}::{name}", funcs=[f"{T}::{name}"]))
    # ---- operators and conversions (trait impls)
    def op(name, tys, expr, site):
        d = Pair("Vec3A")
        vals = [d.value2(t) for t in tys]
        e1, e2 = expr, expr
        for k, v in enumerate(vals):
            e1 = e1.replace(f"${k}", v[0])
            e2 = e2.replace(f"${k}", v[1])
        d.code.append(f"let r1 = {e1}; let r2 = {e2};")
        d.code.append(f'va!("{site} hidden-lane independence", r1.viseq(&r2));')
        hs.append(Harness(f"c08_op_{name}", "\n".join(d.code), backend="smt", uf=UF_ALL, unwind=14, desc=f"{site}: hidden-lane independence (two-run)", site=site, funcs=[site]))

    for sym, nm in (("+", "add"), ("-", "sub"), ("*", "mul"), ("/", "div")):
        op(f"vec3a_{nm}_vv", ["Vec3A", "Vec3A"], f"$0 {sym} $1", f"Vec3A {sym} Vec3A")
        op(f"vec3a_{nm}_vs", ["Vec3A", "f32"], f"$0 {sym} $1", f"Vec3A {sym} f32")
        op(f"vec3a_{nm}_sv", ["Vec3A", "f32"], f"$1 {sym} $0", f"f32 {sym} Vec3A")
    op("vec3a_neg", ["Vec3A"], "-$0", "-Vec3A")
    op("vec3a_eq", ["Vec3A", "Vec3A"], "($0 == $1)", "Vec3A == Vec3A")
    op("vec3a_sum", ["Vec3A", "Vec3A"], "[$0, $1].iter().copied().sum::<Vec3A>()", "Sum<Vec3A>")
    op("vec3a_product", ["Vec3A", "Vec3A"], "[$0, $1].iter().copied().product::<Vec3A>()", "Product<Vec3A>")
    op("vec3a_index", ["Vec3A", "usize"], "{ let i = $1 % 3; $0[i] }", "Vec3A[i]")
    op("vec3a_to_vec3", ["Vec3A"], "Vec3::from($0)", "Vec3::from(Vec3A)")
    op("vec3a_to_array", ["Vec3A"], "<[f32; 3]>::from($0)", "<[f32;3]>::from(Vec3A)")
    op("vec3a_to_tuple", ["Vec3A"], "<(f32, f32, f32)>::from($0)", "<(f32,f32,f32)>::from(Vec3A)")
    op("vec3a_to_vec4", ["Vec3A", "f32"], "Vec4::from(($0, $1))", "Vec4::from((Vec3A, f32))")
    op("vec3a_to_vec4b", ["Vec3A", "f32"], "Vec4::from(($1, $0))", "Vec4::from((f32, Vec3A))")
    op("vec3a_asref", ["Vec3A"], "{ let r: &[f32; 3] = $0.as_ref(); *r }", "Vec3A AsRef")
    op("vec3a_hash_eq", ["Vec3A", "Vec3A"], "($0 == $1, $0 != $1)", "Vec3A ==/!=")
    op("mat3a_mul_mat3a", ["Mat3A", "Mat3A"], "$0 * $1", "Mat3A * Mat3A")
    op("mat3a_mul_vec3a", ["Mat3A", "Vec3A"], "$0 * $1", "Mat3A * Vec3A")
    op("mat3a_mul_vec3", ["Mat3A", "Vec3"], "$0 * $1", "Mat3A * Vec3")
    op("mat3a_add", ["Mat3A", "Mat3A"], "$0 + $1", "Mat3A + Mat3A")
    op("mat3a_sub", ["Mat3A", "Mat3A"], "$0 - $1", "Mat3A - Mat3A")
    op("mat3a_mul_s", ["Mat3A", "f32"], "($0 * $1, $1 * $0, $0 / $1)", "Mat3A * f32, f32 * Mat3A, Mat3A / f32")
    op("mat3a_neg", ["Mat3A"], "-$0", "-Mat3A")
    op("mat3a_eq", ["Mat3A", "Mat3A"], "($0 == $1)", "Mat3A == Mat3A")
    op("mat3a_to_mat3", ["Mat3A"], "Mat3::from($0)", "Mat3::from(Mat3A)")
    op("mat3a_to_mat4", ["Mat3A"], "Mat4::from_mat3a($0)", "Mat4::from_mat3a")
    op("mat3a_to_mat2", ["Mat3A"], "Mat2::from_mat3a($0)", "Mat2::from_mat3a")
    op("mat3a_to_quat", ["Mat3A"], "Quat::from_mat3a(&$0)", "Quat::from_mat3a")
    op("mat3a_to_affine2", ["Mat3A"], "Affine2::from_mat3a($0)", "Affine2::from_mat3a")
    op("affine3a_mul", ["Affine3A", "Affine3A"], "$0 * $1", "Affine3A * Affine3A")
    op("affine3a_mul_mat4", ["Affine3A", "Mat4"], "($0 * $1, $1 * $0)", "Affine3A * Mat4, Mat4 * Affine3A")
    op("affine3a_eq", ["Affine3A", "Affine3A"], "($0 == $1)", "Affine3A == Affine3A")
    op("affine3a_to_mat4", ["Affine3A"], "Mat4::from($0)", "Mat4::from(Affine3A)")
    op("affine3a_to_quat", ["Affine3A"], "Quat::from_affine3(&$0)", "Quat::from_affine3")
    op("quat_mul_vec3a", ["Quat", "Vec3A"], "$0 * $1", "Quat * Vec3A")
    op("mat4_transform_point3a", ["Mat4", "Vec3A"], "($0.transform_point3a($1), $0.transform_vector3a($1), $0.project_point3a($1))", "Mat4::transform_point3a/vector3a/project_point3a")
    for sym, nm in (("&", "and"), ("|", "or"), ("^", "xor")):
        op(f"bvec3a_{nm}", ["BVec3A", "BVec3A"], f"$0 {sym} $1", f"BVec3A {sym} BVec3A")
    op("bvec3a_not", ["BVec3A"], "!$0", "!BVec3A")
    op("bvec3a_eq", ["BVec3A", "BVec3A"], "($0 == $1)", "BVec3A == BVec3A")
    op("bvec3a_hash", ["BVec3A"], "{ let h = rec(&$0); (h.n, h.buf[0], h.buf[1]) }", "Hash for BVec3A")
    op("bvec3a_into", ["BVec3A"], "(<[bool; 3]>::from($0), <[u32; 3]>::from($0))", "BVec3A -> [bool;3], [u32;3]")
    op("vec3a_from_bvec3a", ["BVec3A"], "(Vec3A::from($0), Vec3::from($0), IVec3::from($0))", "From<BVec3A> for Vec3A/Vec3/IVec3")
    op("vec3a_select", ["BVec3A", "Vec3A", "Vec3A"], "Vec3A::select($0, $1, $2)", "Vec3A::select")
    harnesses.skipped = skipped
    return hs
