"""Side condition for 'exact integers on small-integer inputs': if every node of a polynomial term DAG is integer-valued with magnitude < 2^24 (f32) / 2^53 (f64)
for all integer inputs |x| <= k, no IEEE operation rounds, so the mode-R identity holds bit-exactly on that lattice."""
from fractions import Fraction


def bound(t, k, memo):
    r = memo.get(t)
    if r is not None:
        return r
    kind = t[0]
    if kind == "in":
        r = k
    elif kind == "c":
        r = abs(t[1]) if t[1].denominator == 1 else None
    elif kind in ("fadd", "fsub"):
        a, b = bound(t[1], k, memo), bound(t[2], k, memo)
        r = None if a is None or b is None else a + b
    elif kind == "fmul":
        a, b = bound(t[1], k, memo), bound(t[2], k, memo)
        r = None if a is None or b is None else a * b
    elif kind == "fneg":
        r = bound(t[1], k, memo)
    else:
        r = None
    memo[t] = r if r is not None else False
    return r


def max_exact_k(outs, elem):
    lim = 2 ** 24 if elem == 4 else 2 ** 53
    best = 0
    for e in range(0, 12):
        k = 2 ** e
        memo = {}
        ok = True
        for t in outs:
            b = bound(t, k, memo)
            if b is None or b is False:
                return None
        if any((v is False) or (v is not None and v >= lim) for v in memo.values()):
            break
        best = k
    return best
