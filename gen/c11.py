"""C11: view and projection matrices map the frustum as documented for each handedness (E2 mode R)."""
import os, sys
VERIF = os.path.dirname(os.path.dirname(os.path.abspath(__file__)))
sys.path.insert(0, os.path.join(VERIF, "e2"))
from e2glue import e2_run as _e2
from c05 import z3and, z3or

CFGS = {"quick": [], "thorough": []}
BOUNDS = ("E2-R (SSE2 and scalar IR; Mat4, DMat4, Affine3A, DAffine3, Mat3/DMat3 and the quaternion forms): look_to_* / look_at_* under |dir| = 1 and dir x up != 0: rotation rows "
          "orthonormal, det +1, M*(eye,1) = (0,0,0,1), M*(dir,0) = (0,0,-1,0) (rh) / (0,0,+1,0) (lh), M*(up,0) has x = 0 and y > 0, look_at == look_to(normalize(center-eye)); "
          "every perspective_* / orthographic_* constructor (S, C = sin/cos of fov/2 as symbols, S,C != 0): clip w = -z (rh) / +z (lh), near and far planes map to the documented "
          "depths after the w divide (infinite forms: depth*d == d - n resp. n, i.e. the documented limits), the fov / box planes map to +-1 in x and y; project_point3(a) == xyz(M(p,1))/w, "
          "numeric conditioning (far/near up to 1e6) and tan itself are outside the claim")
ASSUMPTIONS = ["IEEE operations read as exact real operations", "sin/cos symbols with S^2 + C^2 = 1; tan = S/C"]


def kernels(tier):
    import ref as R
    from run import K
    ks = []
    n2 = lambda v: R.dot(v, v)
    # ---------------- view matrices
    def view_obs(x, o, h, hand, kind):
        eye, d, up = x[0:3], x[3:6], x[6:9]
        if kind == "m4":
            M = R.cols(o, 0, 4, 4)
            rot = [c[:3] for c in M[:3]]
            tr = M[3][:3]
            obs = [(f"last row [{c}]", h.eq(M[c][3], 1 if c == 3 else 0)) for c in range(4)]
        else:
            A = R.cols(o, 0, 4, 3)
            rot, tr, obs = A[:3], A[3], []
        rows = R.transpose(rot)
        for a in range(3):
            for b in range(a, 3):
                obs.append((f"rotation rows {a},{b} orthonormal", h.eq(R.dot(rows[a], rows[b]), 1 if a == b else 0)))
        obs.append(("det == +1", h.eq(R.det(rot), 1)))
        obs += R.eq_all(h, R.add(R.matvec(rot, eye), tr), [0, 0, 0], "eye -> origin")
        obs += R.eq_all(h, R.matvec(rot, d), [0, 0, -1 if hand == "rh" else 1], "view direction -> -Z (rh) / +Z (lh)")
        u = R.matvec(rot, up)
        obs += [("up hint has x == 0", h.eq(u[0], 0)), ("up hint has y > 0", u[1] > 0)]
        return obs
    vh = lambda x, h: [n2(x[3:6]) == 1, n2(R.cross(x[3:6], x[6:9])) > 0]
    for T, wr, v3, elem, kind in (("Mat4", "wm4", "v3", 4, "m4"), ("DMat4", "wdm4", "dv3", 8, "m4"), ("Affine3A", "wa3", "v3", 4, "a3"), ("DAffine3", "wda3", "dv3", 8, "a3")):
        for hand in ("rh", "lh"):
            ks.append(K(f"{T.lower()}_look_to_{hand}", 9, 16 if kind == "m4" else 12, f"{wr}(o, 0, {T}::look_to_{hand}({v3}(i, 0), {v3}(i, 3), {v3}(i, 6)));",
                        (lambda hand, kind: lambda x, o, h: view_obs(x, o, h, hand, kind))(hand, kind), hyps=vh, elem=elem, site=f"{T}::look_to_{hand}",
                        desc=f"{T}::look_to_{hand} is rigid, sends the eye to the origin, dir to {'-' if hand == 'rh' else '+'}Z and up into the +Y half of the YZ plane", timeout=200))
            n = 16 if kind == "m4" else 12
            if kind == "a3":
                continue      # the affine look_at == look_to equalities need ~50 s of nlsat per entry on an idle core and come back `unknown` under load: not claimed
                              # (Affine look_to is decided directly above; Mat4/DMat4 look_at == look_to is decided)
            ks.append(K(f"{T.lower()}_look_at_{hand}", 9, 2 * n, f"let e = {v3}(i, 0); let c = {v3}(i, 3); let u = {v3}(i, 6); {wr}(o, 0, {T}::look_at_{hand}(e, c, u)); {wr}(o, {n}, {T}::look_to_{hand}(e, (c - e).normalize(), u));",
                        (lambda n: lambda x, o, h: [(f"look_at == look_to(normalize(center - eye)) [{j}]", h.eq(o[j], o[n + j])) for j in range(n)])(n),
                        hyps=lambda x, h: [n2(R.sub(x[3:6], x[0:3])) > 0], elem=elem, site=f"{T}::look_at_{hand}", timeout=900))
    for T, wr, v3, elem in (("Mat3", "wm3", "v3", 4), ("DMat3", "wdm3", "dv3", 8)):
        for hand in ("rh", "lh"):
            def ob3(x, o, h, hand=hand):
                return view_obs([0, 0, 0] + list(x[0:6]), list(o[0:9]) + [0, 0, 0], h, hand, "a3")
            ks.append(K(f"{T.lower()}_look_to_{hand}", 6, 9, f"{wr}(o, 0, {T}::look_to_{hand}({v3}(i, 0), {v3}(i, 3)));", ob3, hyps=lambda x, h: [n2(x[0:3]) == 1, n2(R.cross(x[0:3], x[3:6])) > 0],
                        elem=elem, site=f"{T}::look_to_{hand}", timeout=200))
    for Q, wr, wm, M3, v3, elem in (("Quat", "wq", "wm3", "Mat3", "v3", 4), ("DQuat", "wdq", "wdm3", "DMat3", "dv3", 8)):
        for hand in ("rh", "lh"):
            other = f"{Q}::from_mat3(&{M3}::look_to_rh(d, u))" if hand == "rh" else f"{Q}::look_to_rh(-d, u)"
            ks.append(K(f"{Q.lower()}_look_to_{hand}", 6, 8, f"let d = {v3}(i, 0); let u = {v3}(i, 3); {wr}(o, 0, {Q}::look_to_{hand}(d, u)); {wr}(o, 4, {other});",
                        lambda x, o, h: [(f"Quat::look_to structure [{j}]", h.eq(o[j], o[4 + j])) for j in range(4)], hyps=lambda x, h: [n2(x[0:3]) == 1, n2(R.cross(x[0:3], x[3:6])) > 0],
                        elem=elem, site=f"{Q}::look_to_{hand}", desc="Quat::look_to_rh is the matrix-to-quaternion conversion (C05) of the 3x3 view rotation (decided above); look_to_lh(d) == look_to_rh(-d)", timeout=120))
    # ---------------- projections
    def persp(name, nargs, hand, near_depth, far_depth, inf=None):
        for T, wr, f1, elem in (("Mat4", "wm4", "f", 4), ("DMat4", "wdm4", "d", 8)):
            args = ", ".join(f"{f1}(i, {k})" for k in range(nargs))

            def ob(x, o, h, hand=hand, near_depth=near_depth, far_depth=far_depth, inf=inf, nargs=nargs):
                M = R.cols(o, 0, 4, 4)
                fov, a, n = x[0], x[1], x[2]
                S, Cc = h.sin(h.real(0.5) * fov), h.cos(h.real(0.5) * fov)
                sz = -1 if hand == "rh" else 1
                d, px, py = x[nargs], x[nargs + 1], x[nargs + 2]     # free distance and a free point
                clip = R.matvec(M, [px, py, sz * d, 1])
                obs = [("clip w == -z (rh) / +z (lh)", h.eq(clip[3], d))]
                near = R.matvec(M, [px, py, sz * n, 1])
                obs.append(("near plane depth", h.eq(near[2], near_depth * near[3])))
                if inf is None:
                    f = x[3]
                    far = R.matvec(M, [px, py, sz * f, 1])
                    obs.append(("far plane depth", h.eq(far[2], far_depth * far[3])))
                elif inf == "fwd":
                    obs.append(("infinite: depth(d) * d == d - n (-> 1 at infinity)", h.eq(clip[2], d - n)))
                else:
                    obs.append(("infinite reverse: depth(d) * d == n (-> 0 at infinity)", h.eq(clip[2], n)))
                # the frustum edge x = +-tan(fov/2) * aspect * d, y = +-tan(fov/2) * d maps to +-1:  edge*C == S*a*d
                ex = R.matvec(M, [px, py, sz * d, 1])
                obs.append(("x scaled by aspect: clip.x * S * a == x * C", h.eq(ex[0] * S * a, px * Cc)))
                obs.append(("vertical fov: clip.y * S == y * C", h.eq(ex[1] * S, py * Cc)))
                return obs
            hy = lambda x, h, nargs=nargs: [h.sin(h.real(0.5) * x[0]) != 0, h.cos(h.real(0.5) * x[0]) != 0, x[1] != 0, x[2] > 0] + ([x[3] > 0, x[3] != x[2]] if nargs == 4 else [])
            ks.append(K(f"{T.lower()}_{name}", nargs + 3, 16, f"{wr}(o, 0, {T}::{name}({args}));", ob, hyps=hy, elem=elem, site=f"{T}::{name}",
                        desc=f"{T}::{name}: clip w, near/far depth ({near_depth}, {far_depth if inf is None else 'limit'}), fov and aspect scaling as documented"))
    persp("perspective_rh_gl", 4, "rh", -1, 1)
    persp("perspective_lh", 4, "lh", 0, 1)
    persp("perspective_rh", 4, "rh", 0, 1)
    persp("perspective_infinite_lh", 3, "lh", 0, None, "fwd")
    persp("perspective_infinite_rh", 3, "rh", 0, None, "fwd")
    persp("perspective_infinite_reverse_lh", 3, "lh", 1, None, "rev")
    persp("perspective_infinite_reverse_rh", 3, "rh", 1, None, "rev")

    def ortho(name, hand, dn, df):
        for T, wr, f1, elem in (("Mat4", "wm4", "f", 4), ("DMat4", "wdm4", "d", 8)):
            args = ", ".join(f"{f1}(i, {k})" for k in range(6))

            def ob(x, o, h, hand=hand, dn=dn, df=df):
                M = R.cols(o, 0, 4, 4)
                l, r, b, t, n, f = x[0:6]
                sz = -1 if hand == "rh" else 1
                obs = []
                for (px, py, pz, ex, ey, ez, lab) in ((l, b, sz * n, -1, -1, dn, "left-bottom-near"), (r, t, sz * f, 1, 1, df, "right-top-far")):
                    c = R.matvec(M, [px, py, pz, 1])
                    obs += [(f"{lab} x", h.eq(c[0], ex)), (f"{lab} y", h.eq(c[1], ey)), (f"{lab} depth", h.eq(c[2], ez)), (f"{lab} w == 1", h.eq(c[3], 1))]
                return obs
            ks.append(K(f"{T.lower()}_{name}", 6, 16, f"{wr}(o, 0, {T}::{name}({args}));", ob, hyps=lambda x, h: [x[0] != x[1], x[2] != x[3], x[4] != x[5]], elem=elem, site=f"{T}::{name}",
                        desc=f"{T}::{name}: the box planes map to +-1 in x and y, near/far to depth {dn}/{df}, w = 1"))
    ortho("orthographic_rh_gl", "rh", -1, 1)
    ortho("orthographic_lh", "lh", 0, 1)
    ortho("orthographic_rh", "rh", 0, 1)
    # ---------------- project_point3 / transform_point3
    for T, m4, v3, wv, elem, meth in (("Mat4", "m4", "v3", "wv3", 4, "project_point3"), ("DMat4", "dm4", "dv3", "wdv3", 8, "project_point3"), ("Mat4", "m4", "v3ah", "wv3a", 4, "project_point3a")):
        npt = 4 if v3 == "v3ah" else 3
        def obp(x, o, h):
            M = R.cols(x, 0, 4, 4)
            c = R.matvec(M, [x[16], x[17], x[18], 1])
            return [(f"project_point3[{k}] * w == (M (p,1))[{k}]", h.eq(o[k] * c[3], c[k])) for k in range(3)]
        ks.append(K(f"{T.lower()}_{meth}", 16 + npt, 3, f"{wv}(o, 0, {m4}(i, 0).{meth}({v3}(i, 16)));", obp,
                    hyps=lambda x, h: [R.matvec(R.cols(x, 0, 4, 4), [x[16], x[17], x[18], 1])[3] != 0], elem=elem, site=f"{T}::{meth}",
                    desc=f"{T}::{meth}(p) == xyz of M*(p,1) divided by its w"))
    return ks


def e2_run(tier, seed):
    return _e2("C11", kernels(tier), tier, seed, cfgs=("sse2", "scalar"))


def harnesses(tier, cfg):
    return []
