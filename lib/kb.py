"""E1 back end: Kani codegen -> goto-cc link -> CBMC (SAT, or SMT2 dump -> cvc5 / z3-new).

Every run regenerates the harness crate, compiles it together with /repo's *current working tree*
(path dependency) with Kani's compiler, and decides each harness with a solver.
"""
import copy, json, os, re, subprocess, sys, time, hashlib, shutil, resource, threading
from concurrent.futures import ThreadPoolExecutor

VERIF = os.path.dirname(os.path.dirname(os.path.abspath(__file__)))
REPO = os.environ.get("VERIF_REPO", "/repo")
BUILD = os.path.join(VERIF, "build")
KANI_LIB = os.path.expanduser("~/.kani/kani-0.68.0/library/kani/kani_lib.c")
MODELS_C = os.path.join(VERIF, "harness", "common", "models.c")    # range/domain models of libm functions Kani has no model for (acos, asin)
NIN = 64
JOBS = int(os.environ.get("VERIF_JOBS", "14"))

CBMC_FLAGS = ["--no-malloc-may-fail", "--bounds-check", "--pointer-check", "--pointer-primitive-check",
              "--div-by-zero-check", "--unwinding-assertions", "--no-signed-overflow-check",
              "--no-undefined-shift-check", "--object-bits", "16", "--slice-formula"]

# ---------------------------------------------------------------------------------------------
# configurations
# ---------------------------------------------------------------------------------------------
CFGS = {
    "sse2":   dict(features=[], default=True, sse=True),
    "scalar": dict(features=["scalar-math"], default=True, sse=False),
    "sse2a":  dict(features=["glam-assert"], default=True, sse=True),
    "scalara": dict(features=["scalar-math", "glam-assert"], default=True, sse=False),
    "libm":   dict(features=["libm"], default=True, sse=True),
    "diff":   dict(features=[], default=True, sse=True, assert_copy=["glam-assert"]),
    "diffs":  dict(features=["scalar-math"], default=True, sse=False, assert_copy=["glam-assert", "scalar-math"]),
    # release-like code generation: debug assertions compiled out as in `cargo build --release` (Kani keeps arithmetic overflow checks on whatever -C overflow-checks says)
    "sse2rel":   dict(features=[], default=True, sse=True, rustflags="-C debug-assertions=off -C overflow-checks=off"),
    "scalarrel": dict(features=["scalar-math"], default=True, sse=False, rustflags="-C debug-assertions=off -C overflow-checks=off"),
    "feat":   dict(features=["serde", "bytemuck", "mint"], default=True, sse=True),
    "feats":  dict(features=["serde", "bytemuck", "mint", "scalar-math"], default=True, sse=False),
}

SSE_STUBS = [
    ("core::arch::x86_64::_mm_add_ps", "mm_add_ps"), ("core::arch::x86_64::_mm_sub_ps", "mm_sub_ps"),
    ("core::arch::x86_64::_mm_mul_ps", "mm_mul_ps"), ("core::arch::x86_64::_mm_add_ss", "mm_add_ss"),
    ("core::arch::x86_64::_mm_min_ps", "mm_min_ps"), ("core::arch::x86_64::_mm_max_ps", "mm_max_ps"),
    ("core::arch::x86_64::_mm_cmpeq_ps", "mm_cmpeq_ps"), ("core::arch::x86_64::_mm_cmpneq_ps", "mm_cmpneq_ps"),
    ("core::arch::x86_64::_mm_cmplt_ps", "mm_cmplt_ps"), ("core::arch::x86_64::_mm_cmple_ps", "mm_cmple_ps"),
    ("core::arch::x86_64::_mm_cmpgt_ps", "mm_cmpgt_ps"), ("core::arch::x86_64::_mm_cmpge_ps", "mm_cmpge_ps"),
    ("core::arch::x86_64::_mm_cmpunord_ps", "mm_cmpunord_ps"), ("core::arch::x86_64::_mm_cmpord_ps", "mm_cmpord_ps"),
    ("core::arch::x86_64::_mm_cmpnlt_ps", "mm_cmpnlt_ps"), ("core::arch::x86_64::_mm_cmpnle_ps", "mm_cmpnle_ps"),
    ("core::arch::x86_64::_mm_cmpngt_ps", "mm_cmpngt_ps"), ("core::arch::x86_64::_mm_cmpnge_ps", "mm_cmpnge_ps"),
    ("core::arch::x86_64::_mm_cvttps_epi32", "mm_cvttps_epi32"), ("core::arch::x86_64::_mm_cvtepi32_ps", "mm_cvtepi32_ps"),
]
# math shims of glam that become uninterpreted functions ("uf" option of a harness)
UF_STUBS = {
    "sqrt": [("glam::f32::math::sqrt", "shim::sqrt32"), ("glam::f64::math::sqrt", "shim::sqrt64")],
    "sin": [("glam::f32::math::sin", "shim::sin32"), ("glam::f64::math::sin", "shim::sin64")],
    "sin_cos": [("glam::f32::math::sin_cos", "shim::sin_cos32"), ("glam::f64::math::sin_cos", "shim::sin_cos64")],
    "tan": [("glam::f32::math::tan", "shim::tan32"), ("glam::f64::math::tan", "shim::tan64")],
    "atan2": [("glam::f32::math::atan2", "shim::atan2_32"), ("glam::f64::math::atan2", "shim::atan2_64")],
    "exp": [("glam::f32::math::exp", "shim::exp32"), ("glam::f64::math::exp", "shim::exp64")],
    "powf": [("glam::f32::math::powf", "shim::powf32"), ("glam::f64::math::powf", "shim::powf64")],
    "mul_add": [("glam::f32::math::mul_add", "shim::mul_add32"), ("glam::f64::math::mul_add", "shim::mul_add64")],
    "div_euclid": [("glam::f32::math::div_euclid", "shim::div_euclid32"), ("glam::f64::math::div_euclid", "shim::div_euclid64")],
    "rem_euclid": [("glam::f32::math::rem_euclid", "shim::rem_euclid32"), ("glam::f64::math::rem_euclid", "shim::rem_euclid64")],
    "acos_approx": [("glam::f32::math::acos_approx", "shim::acos_approx32"), ("glam::f64::math::acos_approx", "shim::acos_approx64")],
}


class Harness:
    """One proof harness = one solver query group.

    body: Rust statements; inputs are drawn from `s` (a support::Src) *first*.
    backend: 'sat' | 'smt'.  expect: 'pass' | 'panic' (every path must panic).
    """
    def __init__(self, name, body, backend="sat", expect="pass", unwind=None, uf=(), exact_sqrt=False,
                 desc="", funcs=(), site=None, extra_stubs=(), cap=None, nostubs=False, pre=""):
        self.name, self.body, self.backend, self.expect = name, body, backend, expect
        self.unwind, self.uf, self.exact_sqrt = unwind, tuple(uf), exact_sqrt
        self.desc, self.funcs, self.site = desc, list(funcs), site or name
        self.extra_stubs = list(extra_stubs)
        self.cap = cap
        self.nostubs = nostubs
        self.pre = pre  # extra items emitted before the body fn (helper fns)
        self.result = None
        self.cross = None
        self.ignore_panics = False
        self.expect_fail = False


def rust_source(harnesses, cfg, prelude=""):
    sse = CFGS[cfg]["sse"]
    out = ["#![allow(warnings)]", '#![recursion_limit = "16384"]',
           "#![cfg_attr(kani, feature(stmt_expr_attributes))]",
           f'#[path = "{VERIF}/harness/common/support.rs"] pub mod support;',
           "use support::*;", "use glam::*;",
           "#[cfg(kani)] macro_rules! va_ { ($m:literal, $c:expr) => { kani::assert($c, $m) } }",
           "#[cfg(not(kani))] macro_rules! va_ { ($m:literal, $c:expr) => { assert!($c, $m) } }",
           prelude]
    for h in harnesses:
        stubs = []
        if sse and not h.nostubs:
            stubs += [(a, "support::stubs::" + b) for a, b in SSE_STUBS]
            stubs.append(("core::arch::x86_64::_mm_sqrt_ps",
                          "support::stubs::mm_sqrt_ps_exact" if (h.exact_sqrt or "sqrt" not in h.uf) else "support::stubs::mm_sqrt_ps_uf"))
        for u in h.uf:
            stubs += [(a, "support::" + b) for a, b in UF_STUBS[u]]
        stubs += h.extra_stubs
        if h.pre:
            out.append(h.pre)
        out.append(f"pub fn b_{h.name}(inp: &[u64; NIN]) {{ let mut s = Src::new(inp);\n{h.body}\n}}")
        out.append("#[cfg(kani)] #[kani::proof]")
        if h.unwind:
            out.append(f"#[kani::unwind({h.unwind})]")
        for a, b in stubs:
            out.append(f"#[kani::stub({a}, {b})]")
        end = 'vcover!("REACH");' if h.expect == "pass" else 'va!("must-panic", false);'
        out.append(f"pub fn h_{h.name}() {{ let inp: [u64; NIN] = kani::any(); b_{h.name}(&inp); {end} }}")
    # native dispatch table for replay
    out.append("#[cfg(not(kani))] pub static TABLE: &[(&str, fn(&[u64; NIN]))] = &[")
    for h in harnesses:
        out.append(f'    ("{h.name}", b_{h.name}),')
    out.append("];")
    txt = "\n".join(out) + "\n"
    # va!("id", cond); (one line) -> assert!(cond, "VA:id");   (Kani's assert! wants a literal message)
    txt = txt.replace('va!("', 'va_!("VA:')
    txt = re.sub(r'vcover!\("([^"]*)"\);', lambda m: f'#[cfg(kani)] kani::cover!(true, "VC:{m.group(1)}");', txt)
    return txt


REPLAY_MAIN = r'''
#[cfg(kani)] fn main() {}
#[cfg(not(kani))] use std::panic;
#[cfg(not(kani))]
fn main() {
    let a: Vec<String> = std::env::args().collect();
    let name = &a[1];
    let mut inp = [0u64; vh::support::NIN];
    for (i, w) in a[2..].iter().enumerate() { inp[i] = u64::from_str_radix(w.trim_start_matches("0x"), 16).unwrap(); }
    let f = vh::TABLE.iter().find(|(n, _)| n == name).expect("no such harness").1;
    let r = panic::catch_unwind(|| { f(&inp); vh::support::ASSUME_FAILED.with(|c| c.get()) });
    match r {
        Ok(false) => println!("REPLAY: completed"),
        Ok(true) => println!("REPLAY: assumption-not-met"),
        Err(e) => {
            let msg = if let Some(s) = e.downcast_ref::<&str>() { s.to_string() } else if let Some(s) = e.downcast_ref::<String>() { s.clone() } else { "?".into() };
            println!("REPLAY: panicked: {}", msg);
        }
    }
}
'''


def sh(cmd, **kw):
    return subprocess.run(cmd, stdout=subprocess.PIPE, stderr=subprocess.STDOUT, text=True, **kw)


def _limits(mem_gb):
    def f():
        b = int(mem_gb * (1 << 30))
        resource.setrlimit(resource.RLIMIT_AS, (b, b))
        os.setsid()
    return f


def run_capped(cmd, timeout, mem_gb=8, stdin=None):
    """run cmd under a wall-clock cap and address-space cap. returns (rc|None on timeout, stdout, secs)"""
    t0 = time.time()
    p = subprocess.Popen(cmd, stdout=subprocess.PIPE, stderr=subprocess.PIPE, stdin=subprocess.DEVNULL if stdin is None else stdin,
                         text=True, preexec_fn=_limits(mem_gb))
    try:
        out, err = p.communicate(timeout=timeout)
        return p.returncode, out, err, time.time() - t0
    except subprocess.TimeoutExpired:
        try:
            os.killpg(p.pid, 9)
        except Exception:
            p.kill()
        p.communicate()
        return None, "", "timeout", time.time() - t0


def write_crate(cdir, cfg, src, with_replay_bin=True):
    c = CFGS[cfg]
    os.makedirs(os.path.join(cdir, "src", "bin"), exist_ok=True)
    os.makedirs(os.path.join(cdir, ".cargo"), exist_ok=True)
    feats = ", ".join(f'"{f}"' for f in c["features"])
    extra_deps = ""
    if "serde" in c["features"]:
        extra_deps = 'serde = { version = "1.0", default-features = false }\nbytemuck = { version = "1.9", default-features = false }\nmint = { version = "0.5.8", default-features = false }\n'
    if c.get("assert_copy"):
        # second copy of /repo's current working tree, built with glam-assert, imported as `glam_a` (version bumped so cargo accepts two `glam` packages)
        copy = os.path.join(BUILD, "repo-assert-copy")
        os.makedirs(copy, exist_ok=True)
        subprocess.run(["rsync", "-a", "--delete", "--exclude", "target", "--exclude", ".git", REPO + "/", copy + "/"], check=True)
        ct = open(os.path.join(copy, "Cargo.toml")).read()
        ct = re.sub(r'^name = "glam"', 'name = "glam_a"', ct, count=1, flags=re.M)   # a different crate name: cargo and Kani's stub resolver can tell the two trees apart
        open(os.path.join(copy, "Cargo.toml"), "w").write(ct)
        af = ", ".join(f'"{f}"' for f in c["assert_copy"])
        extra_deps += f'glam_a = {{ path = "{copy}", features = [{af}] }}\n'
        lockp = os.path.join(cdir, "Cargo.lock")
        if os.path.exists(lockp):
            os.remove(lockp)
    cargo = f'''[package]
name = "vh"
version = "0.0.0"
edition = "2021"

[lib]
path = "src/lib.rs"

[[bin]]
name = "replay"
path = "src/bin/replay.rs"

[dependencies]
glam = {{ path = "{REPO}", features = [{feats}] }}
{extra_deps}
[features]
default = ["std"]
std = []
libm = []

[workspace]

[profile.dev]
debug = 0
[profile.release]
debug = 0

[lints.rust]
unexpected_cfgs = {{ level = "allow", check-cfg = ['cfg(kani)'] }}
'''
    def wr(p, s):
        if os.path.exists(p) and open(p).read() == s:
            return
        open(p, "w").write(s)
    wr(os.path.join(cdir, "Cargo.toml"), cargo)
    wr(os.path.join(cdir, ".cargo", "config.toml"), "[net]\noffline = true\n")
    lock = os.path.join(REPO, "Cargo.lock")
    if os.path.exists(lock) and not os.path.exists(os.path.join(cdir, "Cargo.lock")):
        shutil.copy(lock, os.path.join(cdir, "Cargo.lock"))
    open(os.path.join(cdir, "src", "lib.rs"), "w").write(src)  # always rewritten: forces Kani to re-run codegen
    wr(os.path.join(cdir, "src", "bin", "replay.rs"), REPLAY_MAIN)


def kani_codegen(cdir, cfg, tag, log, slot=None):
    """compile the harness crate (and /repo's working tree) with Kani; returns list of harness metadata"""
    tdir = os.path.join(BUILD, "target", f"kani-{cfg}" + (f"-{slot}" if slot is not None else ""))
    env = dict(os.environ, RUSTFLAGS=("--cap-lints warn " + CFGS[cfg].get("rustflags", "")).strip(), CARGO_NET_OFFLINE="true")
    env.pop("RUSTUP_TOOLCHAIN", None)
    t0 = time.time()
    r = subprocess.run(["cargo", "kani", "--only-codegen", "-Z", "stubbing", "-Z", "c-ffi",
                        "--no-assertion-reach-checks", "--target-dir", tdir],
                       cwd=cdir, env=env, stdout=subprocess.PIPE, stderr=subprocess.STDOUT, text=True)
    open(log, "w").write(r.stdout)
    if r.returncode != 0:
        errs = [l for l in r.stdout.splitlines() if l.startswith("error")][:20]
        raise RuntimeError(f"kani codegen failed for {tag} ({cfg}); log {log}\n" + "\n".join(errs))
    metas = []
    outdir = os.path.join(tdir, "kani", "x86_64-unknown-linux-gnu", "debug", "build", "vh")
    best = None
    for root, _, files in os.walk(outdir):
        for f in files:
            if f.endswith(".kani-metadata.json") and f.startswith("vh-"):
                p = os.path.join(root, f)
                if best is None or os.path.getmtime(p) > os.path.getmtime(best):
                    best = p
    md = json.load(open(best))
    return md["proof_harnesses"], time.time() - t0, os.path.dirname(best)


def link(meta, workdir):
    """Kani's own link steps, done by hand so CBMC can be driven directly"""
    out = os.path.join(workdir, meta["pretty_name"] + ".goto")
    steps = [["goto-cc", meta["goto_file"], KANI_LIB, MODELS_C, "-o", out],
             ["goto-cc", out, "--function", meta["mangled_name"], "-o", out],
             ["goto-instrument", "--drop-unused-functions", out, out],
             ["goto-instrument", "--ensure-one-backedge-per-target", out, out]]
    for s in steps:
        r = sh(s)
        if r.returncode != 0:
            raise RuntimeError("link step failed: " + " ".join(s) + "\n" + r.stdout[-2000:])
    return out


def parse_cbmc_json(out):
    try:
        d = json.loads(out)
    except Exception:
        return None, None, "unparsable cbmc output: " + out[-500:]
    props, status, msgs = [], None, []
    for e in d:
        if "result" in e:
            props = e["result"]
        if "cProverStatus" in e:
            status = e["cProverStatus"]
        if e.get("messageType") == "ERROR":
            msgs.append(e.get("messageText", ""))
    return props, status, "\n".join(msgs)


def classify(props):
    """split CBMC property results into: harness obligations (VA:), covers (VC:), others (panics/safety)"""
    va, vc, other = [], [], []
    for p in props:
        d = p.get("description", "")
        if d.startswith("VA:"):
            va.append(p)
        elif d.startswith("VC:") or p["property"].split(".")[-2:-1] == ["cover"]:
            vc.append(p)
        else:
            other.append(p)
    return va, vc, other


def extract_inputs_from_trace(trace):
    """find the value of the harness's `inp` array in a CBMC json trace"""
    vals = [0] * NIN
    found = False
    for st in trace:
        if st.get("stepType") != "assignment":
            continue
        lhs = st.get("lhs", "")
        if not (lhs == "inp" or lhs.startswith("inp[")):
            continue
        fn = st.get("sourceLocation", {}).get("function", "")
        v = st.get("value", {})
        if lhs == "inp" and "elements" in v:
            for el in v["elements"]:
                i = int(el["index"]) if "index" in el else None
                b = el["value"].get("binary")
                if i is not None and b is not None:
                    vals[i] = int(b, 2)
                    found = True
        else:
            m = re.match(r"inp\[(\d+)", lhs)
            if m and "binary" in v:
                vals[int(m.group(1))] = int(v["binary"], 2)
                found = True
    return vals if found else None


# ---------------------------------------------------------------------------------------------
# SMT2 route
# ---------------------------------------------------------------------------------------------
_OVF_RE = re.compile(r"\(concat \(\(_ extract (\d+) 0\) ([^()\s]+)\) \(ite ")


def patch_smt2(text):
    """Appendix B of DESIGN.md: CBMC 6.11 emits the overflow-result struct as (concat result ovf) but
    reads it back as result=low bits, ovf=top bit. Swap the operands of exactly that pattern."""
    out, i, n, cnt = [], 0, len(text), 0
    while True:
        m = _OVF_RE.search(text, i)
        if not m:
            out.append(text[i:])
            break
        start = m.start()
        # parse the two operands of concat with a paren matcher
        def sexp_end(j):
            if text[j] != "(":
                k = j
                while text[k] not in " )\n":
                    k += 1
                return k
            depth, k = 0, j
            while True:
                c = text[k]
                if c == "(":
                    depth += 1
                elif c == ")":
                    depth -= 1
                    if depth == 0:
                        return k + 1
                elif c == "|":
                    k = text.index("|", k + 1)
                k += 1
        a0 = start + len("(concat ")
        a1 = sexp_end(a0)
        b0 = a1 + 1
        b1 = sexp_end(b0)
        opb = text[b0:b1]
        if re.fullmatch(r"\(ite .* #b1 #b0\)", opb, re.S) and text[b1] == ")":
            out.append(text[i:start])
            out.append("(concat " + opb + " " + text[a0:a1] + ")")
            i = b1 + 1
            cnt += 1
        else:
            out.append(text[i:a0])
            i = a0
    return "".join(out), cnt


def smt_solve(path, solver, timeout):
    if solver == "cvc5":
        cmd = ["cvc5", "--lang", "smt2", f"--tlimit={int(timeout*1000)}", "--produce-models", path]
    else:
        cmd = ["z3-new", f"-T:{int(timeout)}", path]
    rc, out, err, secs = run_capped(cmd, timeout + 10, mem_gb=8)
    if rc is None:
        return "timeout", "", secs
    out = out + ("\n" + err if err else "")
    first = out.strip().splitlines()[0].strip() if out.strip() else ""
    if "(error" in out and first not in ("sat", "unsat"):
        return "error", out[:500], secs
    if first in ("sat", "unsat"):
        # an (error line after check-sat concerns get-value of sliced symbols: harmless for unsat
        return first, out, secs
    if "timeout" in out or "interrupted" in out or first == "unknown":
        return "timeout", out[:200], secs
    return "error", (out + err)[:500], secs


def smt_model_inputs(out):
    """pull inp[[k]] values out of the get-value answers"""
    vals = [0] * NIN
    found = False
    # CBMC prints array element indices in hexadecimal ([[A]] = element 10); every symbol that carries the kani::any() array holds the same value
    for m in re.finditer(r"\(\(\|[^|]*(?:any_raw_array|kani3any)[^|]*\[\[([0-9A-Fa-f]+)\]\]\|\s+(#x[0-9a-fA-F]+|#b[01]+)\)\)", out):
        k = int(m.group(1), 16); v = m.group(2)
        val = int(v[2:], 16) if v[1] == "x" else int(v[2:], 2)
        if k < NIN:
            vals[k] = val
            found = True
    return vals if found else None


class Result:
    def __init__(self, h):
        self.h = h
        self.status = None      # 'pass' | 'fail' | 'inconclusive' | 'broken'
        self.detail = ""
        self.failed = []        # list of failed obligation ids / descriptions
        self.inputs = None
        self.secs = 0.0
        self.solver = ""
        self.n_va = 0
        self.n_other = 0
        self.reach = None


def decide(h, goto, workdir, tier_cap):
    """decide one harness; an SMT-routed harness whose formula cannot be dumped/parsed (constructs CBMC's SMT2 encoder lacks, e.g.
    round-to-integral or float remainder) is re-decided by the SAT back end"""
    r = decide1(h, goto, workdir, tier_cap)
    if h.backend == "smt" and r.status == "inconclusive" and ("smt2 dump failed" in r.detail or "=error" in r.detail or "=timeout" in r.detail):
        h2 = copy.copy(h)
        h2.backend = "sat"
        r2 = decide1(h2, goto, workdir, tier_cap)
        r2.h = h
        r2.solver += " (SAT fallback: SMT2 encoder lacks a construct, or both SMT solvers timed out)"
        if r2.status == "inconclusive":
            r2.detail = r.detail + "; " + r2.detail
        return r2
    return r


def decide1(h, goto, workdir, tier_cap):
    r = Result(h)
    cap = h.cap or tier_cap
    flags = list(CBMC_FLAGS)
    if h.unwind:
        flags += ["--unwind", str(h.unwind)]
    t0 = time.time()
    if h.backend == "sat":
        rc, out, err, secs = run_capped(["cbmc", goto] + flags + ["--sat-solver", "cadical", "--json-ui", "--trace"], cap, 10)
        r.secs = secs
        r.solver = "cbmc+cadical"
        if rc is None:
            r.status, r.detail = "inconclusive", f"SAT back end timed out after {cap}s"
            return r
        props, status, msgs = parse_cbmc_json(out)
        if props is None or status is None:
            r.status, r.detail = "inconclusive", f"cbmc rc={rc}: {msgs or err[-300:]}"
            return r
        return judge(r, props)
    # SMT: list the properties, dump formula for the non-cover ones, decide cover by SAT
    rc, out, err, secs = run_capped(["cbmc", goto] + flags + ["--show-properties", "--json-ui"], 60, 8)
    try:
        plist = [p for e in json.loads(out) if "properties" in e for p in e["properties"]]
    except Exception:
        r.status, r.detail = "inconclusive", "cannot list properties: " + out[-300:]
        return r
    covers = [p["name"] for p in plist if p.get("class") == "cover"]
    noncov = [p for p in plist if p.get("class") != "cover"]
    if h.ignore_panics or h.expect == "panic":
        # Rust panics are allowed (ignore_panics) or expected (must-panic): only harness obligations and memory-safety checks are decided
        noncov = [p for p in noncov if p.get("description", "").startswith("VA:") or p.get("class") != "assertion"]
    # reachability witness (SAT, cover properties only: arithmetic is sliced away)
    cov_args = []
    for c in covers:
        cov_args += ["--property", c]
    rc, out, err, s1 = run_capped(["cbmc", goto] + flags + cov_args + ["--sat-solver", "cadical", "--json-ui"], cap, 10)
    cprops, cstatus, msgs = parse_cbmc_json(out) if rc is not None else (None, None, "timeout")
    if cprops is None:
        r.status, r.detail = "inconclusive", "cover run failed: " + str(msgs)
        return r
    smt = os.path.join(workdir, h.name + ".smt2")
    pargs = []
    for p in noncov:
        pargs += ["--property", p["name"]]
    rc, out, err, s2 = run_capped(["cbmc", goto] + flags + pargs + ["--smt2", "--outfile", smt], cap, 10)
    if rc is None or not os.path.exists(smt):
        r.status, r.detail = "inconclusive", "smt2 dump failed: " + (out + err)[-300:]
        return r
    text = open(smt).read()
    text = re.sub(r"\(set-logic [A-Z_]+\)", "(set-logic ALL)", text, count=1)
    text, npatched = patch_smt2(text)
    open(smt, "w").write(text)
    verdicts = {}
    solvers = ["cvc5"] + (["z3"] if h.cross else [])
    for sv in solvers:
        v, o, s = smt_solve(smt, sv, cap if sv == "cvc5" else min(cap, 60))     # the z3 cross-check of the thorough tier is capped at 60 s per harness
        verdicts[sv] = (v, o, s)
    if verdicts["cvc5"][0] not in ("sat", "unsat") and "z3" not in verdicts:
        # portfolio: cvc5 gave up (it is weak at finding models with uninterpreted functions) -> z3 5.1 on the same formula
        solvers.append("z3")
        verdicts["z3"] = smt_solve(smt, "z3", cap)
    r.secs = time.time() - t0
    r.solver = "cbmc-smt2+" + "+".join(solvers)
    v5 = verdicts["cvc5"][0]
    if "z3" in verdicts:
        vz = verdicts["z3"][0]
        if vz in ("sat", "unsat") and v5 in ("sat", "unsat") and vz != v5:
            r.status, r.detail = "inconclusive", f"solver disagreement cvc5={v5} z3={vz}"
            return r
        if v5 not in ("sat", "unsat") and vz in ("sat", "unsat"):
            v5 = vz
            verdicts["cvc5"] = verdicts["z3"]
    if v5 == "unsat":
        props = cprops + [dict(property=p["name"], description=p.get("description", ""), status="SUCCESS",
                               sourceLocation=p.get("sourceLocation", {})) for p in noncov]
        try:
            os.remove(smt)
        except OSError:
            pass
        return judge(r, props)
    if v5 == "sat":
        # which assertion failed is not in the dump's model; re-run SAT on the found inputs? Use model inputs.
        r.inputs = smt_model_inputs(verdicts["cvc5"][1])
        props = cprops + [dict(property="smt.any", description="VA:(some obligation of this harness; SMT model)",
                               status="FAILURE", sourceLocation={})]
        rr = judge(r, props)
        if r.inputs is not None:
            rr.inputs = r.inputs
        return rr
    r.status, r.detail = "inconclusive", f"SMT solvers: " + ", ".join(f"{k}={v[0]}" for k, v in verdicts.items())
    return r


def judge(r, props):
    h = r.h
    va, vc, other = classify(props)
    r.n_va, r.n_other = len(va), len(other)
    reach = [p for p in vc if "REACH" in p.get("description", "")]
    pre = [p for p in vc if "PRE" in p.get("description", "")]
    reach_ok = any(p["status"] in ("FAILURE", "SATISFIED") for p in reach) if reach else None
    pre_ok = any(p["status"] in ("FAILURE", "SATISFIED") for p in pre) if pre else None
    r.reach = reach_ok if h.expect == "pass" else pre_ok
    bad_va = [p for p in va if p["status"] == "FAILURE"]
    bad_other = [p for p in other if p["status"] == "FAILURE"]
    # CBMC's C-library model of fma() raises FE_* flags through feraiseexcept(), which CBMC flags as "floating-point exception":
    # a model artefact, not a Rust panic (Rust never traps on FP flags)
    bad_other = [p for p in bad_other if p.get("sourceLocation", {}).get("function", "") != "feraiseexcept"]
    unknown = [p for p in va + other if p["status"] not in ("SUCCESS", "FAILURE")]
    if unknown:
        r.status, r.detail = "inconclusive", "undetermined: " + unknown[0]["property"]
        return r
    unwind_fail = [p for p in bad_other if "unwinding" in p["property"] or "unwinding" in p.get("description", "")]
    if unwind_fail:
        r.status, r.detail = "broken", "unwinding assertion failed (bound too small): " + unwind_fail[0]["property"]
        return r

    srcfail = [p for p in bad_other if "support::Src" in p.get("sourceLocation", {}).get("function", "")]
    if srcfail:
        r.status, r.detail = "broken", "harness draws more than NIN input words"
        return r

    def is_panic(p):   # a Rust panic (overflow, index, unwrap, explicit panic!, glam assert), as opposed to a memory-safety check
        return ".assertion." in p["property"]

    def take_inputs(ps):
        for p in ps:
            if "trace" in p:
                i = extract_inputs_from_trace(p["trace"])
                if i:
                    return i
        return r.inputs
    if h.expect == "pass":
        if h.ignore_panics:
            bad_other = [p for p in bad_other if not is_panic(p)]
        if bad_va or bad_other:
            r.status = "fail"
            r.failed = [p["description"] + " @" + p.get("sourceLocation", {}).get("function", "?") for p in bad_va + bad_other]
            r.inputs = take_inputs(bad_va + bad_other)
            return r
        if not reach_ok:
            r.status, r.detail = "broken", "vacuous: end of harness unreachable"
            return r
        r.status = "pass"
        return r
    # expect == 'panic': precondition point reachable, end marker (VA:must-panic) unreachable, no memory-safety failure on the way
    if not pre_ok:
        r.status, r.detail = "broken", "vacuous: must-panic harness precondition unreachable"
        return r
    nonpanic = [p for p in bad_other if not is_panic(p)]
    if bad_va or nonpanic:
        r.status = "fail"
        r.failed = [p["description"] + (" (a path reaches the end without panicking)" if "must-panic" in p["description"] else "") for p in bad_va] + \
                   [p["description"] + " (memory-safety check failed before the panic)" for p in nonpanic]
        r.inputs = take_inputs(bad_va + nonpanic)
        return r
    r.status = "pass"
    return r
